//! W-FAKEAGENT: a scripted implementation of `swimos_api::agent::Agent` that speaks the lane protocol
//! itself, so that the harness can make a lane *fail* (garbage on its channel, or the channel
//! dropped) at a chosen point while the real agent runtime is running.

use std::collections::{BTreeMap, HashMap};

use bytes::BytesMut;
use futures::future::BoxFuture;
use futures::{FutureExt, SinkExt, StreamExt};
use serde::{Deserialize, Serialize};
use swimos_agent_protocol::encoding::lane::{MapLaneRequestDecoder, MapLaneResponseEncoder, ValueLaneRequestDecoder, ValueLaneResponseEncoder};
use swimos_agent_protocol::encoding::store::{StoreInitializedCodec, ValueStoreInitDecoder, ValueStoreResponseEncoder};
use swimos_agent_protocol::{LaneRequest, LaneResponse, MapLaneResponse, MapMessage, MapOperation, StoreInitMessage, StoreInitialized, StoreResponse};
use swimos_api::agent::{Agent, AgentConfig, AgentContext, AgentInitResult, LaneConfig, StoreKind, WarpLaneKind};
use swimos_api::error::AgentTaskError;
use swimos_utilities::byte_channel::{ByteReader, ByteWriter};
use swimos_utilities::routing::RouteUri;
use tokio::io::AsyncWriteExt;
use tokio_util::codec::{FramedRead, FramedWrite};

use super::model::{SharedTruth, TruthEv};
use crate::core::exec::now_step;

#[derive(Debug, Clone, Serialize, Deserialize, PartialEq, Eq)]
pub enum FailMode {
    /// The lane writes bytes that are not a lane response.
    Garbage,
    /// The lane drops both of its channels.
    DropIo,
    /// The lane writes the first part of a well-formed response and then drops its channels: the runtime sees the
    /// end of the stream in the middle of a frame, which is a failure of the lane (not a lane that has merely ended).
    TornFrame,
    /// Lane `map` only: the lane drops its request (input) channel and goes on producing events - an output-only
    /// lane. The runtime notices at the next request it tries to pass to the lane.
    CloseInput,
}

#[derive(Debug, Clone, Serialize, Deserialize, PartialEq, Eq)]
pub struct FailPlan {
    /// "val" or "tval".
    pub lane: String,
    /// The lane fails after the agent has handled this many requests (over all lanes).
    pub after_requests: u32,
    pub mode: FailMode,
}

/// W-FAKEAGENT in persistent mode (focus C05F): lane `val` is persistent and is registered first (lane id 0),
/// `tval` stays transient.
#[derive(Debug, Clone, Serialize, Deserialize, PartialEq, Eq)]
pub struct PersistPlan {
    /// Register the persistent value store `vstore` (store id 0) and write every value commanded on `val` to it
    /// immediately before `val` itself changes: the same bytes reach the runtime for a store and for a lane whose
    /// numeric ids coincide.
    pub mirror_store: bool,
    /// After this many handled requests the agent registers the persistent map lane `map` (a lane added after
    /// initialisation); from then on every value commanded on `val` also updates key `value % 3` of `map`.
    pub late_map_after: Option<u32>,
}

pub struct FakeAgent {
    pub truth: SharedTruth,
    pub plan: Option<FailPlan>,
    pub persist: Option<PersistPlan>,
    pub lane_in_buf: usize,
    pub lane_out_buf: usize,
}

const FAKE_LANES: [&str; 2] = ["val", "tval"];

fn rec(truth: &SharedTruth, ev: TruthEv) {
    truth.lock().unwrap().events.push((now_step(), ev));
}

impl Agent for FakeAgent {
    fn run(
        &self,
        _route: RouteUri,
        _route_params: HashMap<String, String>,
        _config: AgentConfig,
        context: Box<dyn AgentContext + Send>,
    ) -> BoxFuture<'static, AgentInitResult> {
        let truth = self.truth.clone();
        let plan = self.plan.clone();
        let persist = self.persist.clone();
        let config = LaneConfig {
            input_buffer_size: std::num::NonZeroUsize::new(self.lane_in_buf.max(1)).unwrap(),
            output_buffer_size: std::num::NonZeroUsize::new(self.lane_out_buf.max(1)).unwrap(),
            transient: true,
        };
        async move {
            let mut lanes: Vec<(&'static str, ByteWriter, ByteReader)> = vec![];
            for name in FAKE_LANES {
                let mut conf = config;
                if persist.is_some() && name == "val" {
                    conf.transient = false;
                }
                let (tx, rx) = context
                    .add_lane(name, WarpLaneKind::Value, conf)
                    .await
                    .map_err(|_| swimos_api::error::AgentInitError::FailedToStart)?;
                lanes.push((name, tx, rx));
            }
            // Numeric ids: the runtime numbers lanes and stores separately, both from 0, and puts the lanes that need no
            // initialisation first: tval = lane 0, val = lane 1. A store that is never written takes store id 0 so that
            // `vstore` gets store id 1, the id of the lane `val`.
            // In lane-failure mode the agent also has a (transient) map lane, so that a lane of that kind can fail.
            let early_map = if persist.is_none() {
                Some(context.add_lane("map", WarpLaneKind::Map, config).await.map_err(|_| swimos_api::error::AgentInitError::FailedToStart)?)
            } else {
                None
            };
            let mut store0 = None;
            let mut store = if persist.as_ref().map(|p| p.mirror_store).unwrap_or(false) {
                store0 = Some(context.add_store("vstore0", StoreKind::Value).await.map_err(|_| swimos_api::error::AgentInitError::FailedToStart)?);
                Some(context.add_store("vstore", StoreKind::Value).await.map_err(|_| swimos_api::error::AgentInitError::FailedToStart)?)
            } else {
                None
            };
            // Initialisation handshakes of the persistent items happen before the agent task starts (the runtime
            // waits for them): restored values are taken over, then the item reports that it is initialised.
            let mut restored_val = 0;
            let mut restored_vstore = 0;
            if persist.is_some() {
                use tokio_util::codec::Decoder;
                let fail = || swimos_api::error::AgentInitError::FailedToStart;
                if let Some((name, tx, rx)) = lanes.iter_mut().find(|(n, _, _)| *n == "val").map(|(n, tx, rx)| (*n, tx, rx)) {
                    let _ = name;
                    let mut dec = ValueLaneRequestDecoder::<i32>::default();
                    let mut buf = BytesMut::new();
                    'init: loop {
                        loop {
                            match dec.decode(&mut buf) {
                                Ok(Some(LaneRequest::Command(v))) => restored_val = v,
                                Ok(Some(LaneRequest::InitComplete)) => break 'init,
                                Ok(Some(_)) => {}
                                Ok(None) => break,
                                Err(_) => return Err(fail()),
                            }
                        }
                        if tokio::io::AsyncReadExt::read_buf(rx, &mut buf).await.map_err(|_| fail())? == 0 {
                            return Err(fail());
                        }
                    }
                    let mut b = BytesMut::new();
                    let _ = tokio_util::codec::Encoder::encode(&mut ValueLaneResponseEncoder::default(), LaneResponse::<i32>::Initialized, &mut b);
                    tx.write_all(&b).await.map_err(|_| fail())?;
                }
                for (which, (tx, rx)) in store0.iter_mut().chain(store.iter_mut()).enumerate() {
                    let mut dec = ValueStoreInitDecoder::<i32>::default();
                    let mut buf = BytesMut::new();
                    'sinit: loop {
                        loop {
                            match dec.decode(&mut buf) {
                                Ok(Some(StoreInitMessage::Command(v))) => {
                                    if which == 1 {
                                        restored_vstore = v;
                                    }
                                }
                                Ok(Some(StoreInitMessage::InitComplete)) => break 'sinit,
                                Ok(None) => break,
                                Err(_) => return Err(fail()),
                            }
                        }
                        if tokio::io::AsyncReadExt::read_buf(rx, &mut buf).await.map_err(|_| fail())? == 0 {
                            return Err(fail());
                        }
                    }
                    let mut b = BytesMut::new();
                    let _ = tokio_util::codec::Encoder::encode(&mut StoreInitializedCodec, StoreInitialized, &mut b);
                    tx.write_all(&b).await.map_err(|_| fail())?;
                }
            }
            rec(
                &truth,
                TruthEv::Restored {
                    val: restored_val,
                    tval: 0,
                    vstore: restored_vstore,
                    tvstore: 0,
                    map: BTreeMap::new(),
                    bmap: BTreeMap::new(),
                    tmap: BTreeMap::new(),
                    smap: BTreeMap::new(),
                    mstore: BTreeMap::new(),
                },
            );
            rec(&truth, TruthEv::Start);
            Ok(fake_task(context, lanes, store, store0, early_map, config, truth, plan, persist, restored_val).boxed())
        }
        .boxed()
    }
}

enum In {
    Lane(&'static str, Result<LaneRequest<i32>, ()>),
    StoreInit(Result<StoreInitMessage<i32>, ()>),
    Map(Result<LaneRequest<MapMessage<i32, i32>>, ()>),
}

async fn fake_task(
    context: Box<dyn AgentContext + Send>,
    lanes: Vec<(&'static str, ByteWriter, ByteReader)>,
    store: Option<(ByteWriter, ByteReader)>,
    _store0: Option<(ByteWriter, ByteReader)>,
    early_map: Option<(ByteWriter, ByteReader)>,
    lane_config: LaneConfig,
    truth: SharedTruth,
    plan: Option<FailPlan>,
    persist: Option<PersistPlan>,
    restored_val: i32,
) -> Result<(), AgentTaskError> {
    let mut writers: HashMap<&'static str, FramedWrite<ByteWriter, ValueLaneResponseEncoder>> = HashMap::new();
    let mut readers = futures::stream::SelectAll::new();
    let mut values: HashMap<&'static str, i32> = HashMap::new();
    let mut initialized: HashMap<&'static str, bool> = HashMap::new();
    for (name, tx, rx) in lanes {
        writers.insert(name, FramedWrite::new(tx, ValueLaneResponseEncoder::default()));
        values.insert(name, if name == "val" { restored_val } else { 0 });
        // Persistent items were initialised before the task started; a transient lane has no initialisation phase.
        initialized.insert(name, true);
        let framed = FramedRead::new(rx, ValueLaneRequestDecoder::<i32>::default());
        readers.push(framed.map(move |r| In::Lane(name, r.map_err(|_| ()))).boxed());
    }
    // The store: initialisation messages arrive on its reader; afterwards only the writer is used.
    let mut store_writer: Option<ByteWriter> = None;
    let mut store_ready = false;
    let mut _store_reader = None;
    if let Some((tx, rx)) = store {
        store_writer = Some(tx);
        store_ready = true;
        _store_reader = Some(rx);
    }
    let mut store_enc = ValueStoreResponseEncoder::default();
    let mut map_writer: Option<FramedWrite<ByteWriter, MapLaneResponseEncoder>> = None;
    let mut map_ready = false;
    // The request channel of the early map lane, where the fail plan can get at it.
    let map_input: std::sync::Arc<std::sync::Mutex<Option<FramedRead<ByteReader, MapLaneRequestDecoder<i32, i32>>>>> = Default::default();
    if let Some((tx, rx)) = early_map {
        // A transient lane registered at start has no initialisation phase.
        map_writer = Some(FramedWrite::new(tx, MapLaneResponseEncoder::default()));
        map_ready = true;
        let framed = FramedRead::new(rx, MapLaneRequestDecoder::<i32, i32>::default());
        *map_input.lock().unwrap() = Some(framed);
        let cell = map_input.clone();
        readers.push(
            futures::stream::poll_fn(move |cx| {
                let mut guard = cell.lock().unwrap();
                match guard.as_mut() {
                    Some(framed) => framed.poll_next_unpin(cx),
                    None => std::task::Poll::Ready(None),
                }
            })
            .map(|r| In::Map(r.map_err(|_| ())))
            .boxed(),
        );
    }
    let mut map_state: BTreeMap<i32, i32> = BTreeMap::new();
    let mut handled: u32 = 0;
    let mut failed: Option<&'static str> = None;
    while let Some(input) = readers.next().await {
        match input {
            In::StoreInit(msg) => {
                match msg {
                    Ok(StoreInitMessage::Command(_)) => {}
                    Ok(StoreInitMessage::InitComplete) => {
                        if let Some(w) = store_writer.as_mut() {
                            let mut b = BytesMut::new();
                            let _ = tokio_util::codec::Encoder::encode(&mut StoreInitializedCodec, StoreInitialized, &mut b);
                            if w.write_all(&b).await.is_ok() {
                                store_ready = true;
                            }
                        }
                    }
                    Err(()) => {}
                }
                continue;
            }
            In::Map(msg) => {
                match msg {
                    Ok(LaneRequest::InitComplete) => {
                        if let Some(w) = map_writer.as_mut() {
                            let r: MapLaneResponse<i32, i32> = LaneResponse::Initialized;
                            if w.send(r).await.is_ok() {
                                map_ready = true;
                            }
                        }
                    }
                    Ok(LaneRequest::Sync(id)) => {
                        if let Some(w) = map_writer.as_mut() {
                            for (k, v) in map_state.iter() {
                                let r: MapLaneResponse<i32, i32> = LaneResponse::SyncEvent(id, MapOperation::Update { key: *k, value: *v });
                                let _ = w.send(r).await;
                            }
                            let r: MapLaneResponse<i32, i32> = LaneResponse::Synced(id);
                            let _ = w.send(r).await;
                        }
                    }
                    // Restored entries (initialisation) and commands from remotes are ignored by this script.
                    _ => {}
                }
                continue;
            }
            In::Lane(..) => {}
        }
        let In::Lane(name, req) = input else { continue };
        if Some(name) == failed {
            continue;
        }
        let Ok(req) = req else { continue };
        match req {
            LaneRequest::InitComplete => {
                if let Some(w) = writers.get_mut(name) {
                    let _ = w.send(LaneResponse::<i32>::Initialized).await;
                }
                initialized.insert(name, true);
            }
            LaneRequest::Command(v) if !initialized[name] => {
                // A restored value (initialisation phase): taken over silently.
                values.insert(name, v);
            }
            LaneRequest::Command(v) => {
                if name == "val" {
                    if let (true, Some(w)) = (store_ready, store_writer.as_mut()) {
                        // The store first, with the same bytes.
                        let mut b = BytesMut::new();
                        let _ = tokio_util::codec::Encoder::encode(&mut store_enc, StoreResponse::new(v), &mut b);
                        if w.write_all(&b).await.is_ok() {
                            rec(&truth, TruthEv::Value { item: "vstore", value: v });
                        }
                    }
                }
                values.insert(name, v);
                rec(&truth, TruthEv::Value { item: name, value: v });
                if let Some(w) = writers.get_mut(name) {
                    if w.send(LaneResponse::StandardEvent(v)).await.is_err() {
                        writers.remove(name);
                    }
                }
                if name == "val" && map_ready {
                    if let Some(w) = map_writer.as_mut() {
                        let k = v.rem_euclid(3);
                        map_state.insert(k, v);
                        rec(&truth, TruthEv::Update { item: "map", key: k.to_string(), value: v });
                        let r: MapLaneResponse<i32, i32> = LaneResponse::StandardEvent(MapOperation::Update { key: k, value: v });
                        let _ = w.send(r).await;
                    }
                }
                handled += 1;
            }
            LaneRequest::Sync(id) => {
                let v = values[name];
                if let Some(w) = writers.get_mut(name) {
                    let r1 = w.send(LaneResponse::SyncEvent(id, v)).await;
                    let r2 = w.send(LaneResponse::<i32>::Synced(id)).await;
                    if r1.is_err() || r2.is_err() {
                        writers.remove(name);
                    }
                }
                handled += 1;
            }
        }
        // A lane registered after the agent has started.
        if let Some(after) = persist.as_ref().and_then(|p| p.late_map_after) {
            if map_writer.is_none() && handled >= after {
                let mut conf = lane_config;
                conf.transient = false;
                if let Ok((tx, rx)) = context.add_lane("map", WarpLaneKind::Map, conf).await {
                    map_writer = Some(FramedWrite::new(tx, MapLaneResponseEncoder::default()));
                    let framed = FramedRead::new(rx, MapLaneRequestDecoder::<i32, i32>::default());
                    readers.push(framed.map(|r| In::Map(r.map_err(|_| ()))).boxed());
                }
            }
        }
        if let Some(p) = &plan {
            if failed.is_none() && handled >= p.after_requests {
                let lane: &'static str = match p.lane.as_str() {
                    "val" => "val",
                    "map" => "map",
                    _ => "tval",
                };
                failed = Some(lane);
                rec(&truth, TruthEv::LaneFailed { item: lane });
                if lane == "map" && matches!(p.mode, FailMode::CloseInput) {
                    // Only the input goes; the lane keeps its writer and keeps producing events.
                    drop(map_input.lock().unwrap().take());
                    continue;
                }
                if lane == "map" {
                    map_ready = false;
                    if let Some(w) = map_writer.take() {
                        if matches!(p.mode, FailMode::Garbage) {
                            let mut raw = w.into_inner();
                            let mut junk = BytesMut::new();
                            junk.extend_from_slice(&[0xEEu8; 17]);
                            let _ = raw.write_all(&junk).await;
                            std::mem::forget(raw);
                        } else if matches!(p.mode, FailMode::TornFrame) {
                            let mut raw = w.into_inner();
                            let mut b = BytesMut::new();
                            let r: MapLaneResponse<i32, i32> = LaneResponse::StandardEvent(MapOperation::Update { key: 7, value: 123_456_789 });
                            let _ = tokio_util::codec::Encoder::encode(&mut MapLaneResponseEncoder::default(), r, &mut b);
                            let keep = b.len().saturating_sub(3).max(1);
                            let _ = raw.write_all(&b[..keep]).await;
                        }
                    }
                    continue;
                }
                match p.mode {
                    FailMode::Garbage => {
                        if let Some(w) = writers.remove(lane) {
                            let mut raw = w.into_inner();
                            let mut junk = BytesMut::new();
                            junk.extend_from_slice(&[0xEEu8; 17]);
                            let _ = raw.write_all(&junk).await;
                            // Keep the writer open so that only the garbage can be the cause.
                            std::mem::forget(raw);
                        }
                    }
                    FailMode::TornFrame => {
                        if let Some(w) = writers.remove(lane) {
                            let mut raw = w.into_inner();
                            let mut b = BytesMut::new();
                            let _ = tokio_util::codec::Encoder::encode(&mut ValueLaneResponseEncoder::default(), LaneResponse::StandardEvent(123_456_789i32), &mut b);
                            let keep = b.len().saturating_sub(3).max(1);
                            let _ = raw.write_all(&b[..keep]).await;
                            // The writer is dropped here: end of stream inside the frame.
                        }
                    }
                    FailMode::DropIo | FailMode::CloseInput => {
                        writers.remove(lane);
                        // The read half is owned by the stream; requests for the lane are ignored from now on.
                    }
                }
            }
        }
    }
    rec(&truth, TruthEv::Stop);
    Ok(())
}
