//! W-FAKEAGENT: a scripted implementation of `swimos_api::agent::Agent` that speaks the lane protocol
//! itself, so that the harness can make a lane *fail* (garbage on its channel, or the channel
//! dropped) at a chosen point while the real agent runtime is running.

use std::collections::{BTreeMap, HashMap};

use bytes::BytesMut;
use futures::future::BoxFuture;
use futures::{FutureExt, SinkExt, StreamExt};
use serde::{Deserialize, Serialize};
use swimos_agent_protocol::encoding::lane::{ValueLaneRequestDecoder, ValueLaneResponseEncoder};
use swimos_agent_protocol::{LaneRequest, LaneResponse};
use swimos_api::agent::{Agent, AgentConfig, AgentContext, AgentInitResult, LaneConfig, WarpLaneKind};
use swimos_api::error::AgentTaskError;
use swimos_utilities::byte_channel::{ByteReader, ByteWriter};
use swimos_utilities::routing::RouteUri;
use tokio::io::AsyncWriteExt;
use tokio_util::codec::{FramedRead, FramedWrite};

use super::model::{SharedTruth, TruthEv};
use crate::core::exec::now_step;

#[derive(Debug, Clone, Serialize, Deserialize, PartialEq, Eq)]
pub enum FailMode {
    /// The lane writes bytes that are not a lane response.
    Garbage,
    /// The lane drops both of its channels.
    DropIo,
}

#[derive(Debug, Clone, Serialize, Deserialize, PartialEq, Eq)]
pub struct FailPlan {
    /// "val" or "tval".
    pub lane: String,
    /// The lane fails after the agent has handled this many requests (over all lanes).
    pub after_requests: u32,
    pub mode: FailMode,
}

pub struct FakeAgent {
    pub truth: SharedTruth,
    pub plan: Option<FailPlan>,
    pub lane_in_buf: usize,
    pub lane_out_buf: usize,
}

const FAKE_LANES: [&str; 2] = ["val", "tval"];

fn rec(truth: &SharedTruth, ev: TruthEv) {
    truth.lock().unwrap().events.push((now_step(), ev));
}

impl Agent for FakeAgent {
    fn run(
        &self,
        _route: RouteUri,
        _route_params: HashMap<String, String>,
        _config: AgentConfig,
        context: Box<dyn AgentContext + Send>,
    ) -> BoxFuture<'static, AgentInitResult> {
        let truth = self.truth.clone();
        let plan = self.plan.clone();
        let config = LaneConfig {
            input_buffer_size: std::num::NonZeroUsize::new(self.lane_in_buf.max(1)).unwrap(),
            output_buffer_size: std::num::NonZeroUsize::new(self.lane_out_buf.max(1)).unwrap(),
            transient: true,
        };
        async move {
            let mut lanes: Vec<(&'static str, ByteWriter, ByteReader)> = vec![];
            for name in FAKE_LANES {
                let (tx, rx) = context
                    .add_lane(name, WarpLaneKind::Value, config)
                    .await
                    .map_err(|_| swimos_api::error::AgentInitError::FailedToStart)?;
                lanes.push((name, tx, rx));
            }
            rec(
                &truth,
                TruthEv::Restored {
                    val: 0,
                    tval: 0,
                    vstore: 0,
                    tvstore: 0,
                    map: BTreeMap::new(),
                    bmap: BTreeMap::new(),
                    tmap: BTreeMap::new(),
                    smap: BTreeMap::new(),
                    mstore: BTreeMap::new(),
                },
            );
            rec(&truth, TruthEv::Start);
            Ok(fake_task(context, lanes, truth, plan).boxed())
        }
        .boxed()
    }
}

async fn fake_task(
    context: Box<dyn AgentContext + Send>,
    lanes: Vec<(&'static str, ByteWriter, ByteReader)>,
    truth: SharedTruth,
    plan: Option<FailPlan>,
) -> Result<(), AgentTaskError> {
    let _context = context;
    let mut writers: HashMap<&'static str, FramedWrite<ByteWriter, ValueLaneResponseEncoder>> = HashMap::new();
    let mut readers = futures::stream::SelectAll::new();
    let mut values: HashMap<&'static str, i32> = HashMap::new();
    for (name, tx, rx) in lanes {
        writers.insert(name, FramedWrite::new(tx, ValueLaneResponseEncoder::default()));
        values.insert(name, 0);
        let framed = FramedRead::new(rx, ValueLaneRequestDecoder::<i32>::default());
        readers.push(framed.map(move |r| (name, r)).boxed());
    }
    let mut handled: u32 = 0;
    let mut failed: Option<&'static str> = None;
    while let Some((name, req)) = readers.next().await {
        if Some(name) == failed {
            continue;
        }
        let Ok(req) = req else { continue };
        match req {
            LaneRequest::InitComplete => {
                if let Some(w) = writers.get_mut(name) {
                    let _ = w.send(LaneResponse::<i32>::Initialized).await;
                }
            }
            LaneRequest::Command(v) => {
                values.insert(name, v);
                rec(&truth, TruthEv::Value { item: name, value: v });
                if let Some(w) = writers.get_mut(name) {
                    if w.send(LaneResponse::StandardEvent(v)).await.is_err() {
                        writers.remove(name);
                    }
                }
                handled += 1;
            }
            LaneRequest::Sync(id) => {
                let v = values[name];
                if let Some(w) = writers.get_mut(name) {
                    let r1 = w.send(LaneResponse::SyncEvent(id, v)).await;
                    let r2 = w.send(LaneResponse::<i32>::Synced(id)).await;
                    if r1.is_err() || r2.is_err() {
                        writers.remove(name);
                    }
                }
                handled += 1;
            }
        }
        if let Some(p) = &plan {
            if failed.is_none() && handled >= p.after_requests {
                let lane: &'static str = if p.lane == "val" { "val" } else { "tval" };
                failed = Some(lane);
                rec(&truth, TruthEv::LaneFailed { item: lane });
                match p.mode {
                    FailMode::Garbage => {
                        if let Some(w) = writers.remove(lane) {
                            let mut raw = w.into_inner();
                            let mut junk = BytesMut::new();
                            junk.extend_from_slice(&[0xEEu8; 17]);
                            let _ = raw.write_all(&junk).await;
                            // Keep the writer open so that only the garbage can be the cause.
                            std::mem::forget(raw);
                        }
                    }
                    FailMode::DropIo => {
                        writers.remove(lane);
                        // The read half is owned by the stream; requests for the lane are ignored from now on.
                    }
                }
            }
        }
    }
    rec(&truth, TruthEv::Stop);
    Ok(())
}
