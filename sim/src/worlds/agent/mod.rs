pub mod dynmodel;
pub mod fake;
pub mod model;
pub mod oracle;
pub mod run;
pub mod scenario;
pub mod store;

use serde_json::{json, Value as Json};

use crate::core::log::EventLog;
use crate::core::tok::block_on_sim;
use crate::core::{Outcome, Tier, World};

use run::{body_text, FrameKind, RunRecord};
use scenario::{AgentScenario, Ending, StoreFaultCfg};

/// W-AGENT: real `AgentModel` + real agent runtime, scripted peers.
pub struct AgentWorld {
    pub focus: &'static str,
    pub name: &'static str,
}

pub fn build_log(rec: &RunRecord, keep: bool) -> EventLog {
    // Merge everything that was recorded into one history ordered by (step, source order).
    let mut items: Vec<(u64, u8, usize, String, String)> = vec![];
    for (i, f) in rec.hist.frames.iter().enumerate() {
        let d = match &f.kind {
            FrameKind::Linked => format!("peer{} e{} {} linked", f.peer, f.epoch, f.lane),
            FrameKind::Synced => format!("peer{} e{} {} synced", f.peer, f.epoch, f.lane),
            FrameKind::Unlinked(b) => format!("peer{} e{} {} unlinked {:?}", f.peer, f.epoch, f.lane, b.as_ref().map(|b| body_text(b))),
            FrameKind::Event(b) => format!("peer{} e{} {} event {}", f.peer, f.epoch, f.lane, body_text(b)),
        };
        items.push((f.step, 1, i, "frame".into(), d));
    }
    for (i, s) in rec.hist.sent.iter().enumerate() {
        items.push((s.end, 2, i, "sent".into(), format!("peer{} e{} start={} ok={} {:?}", s.peer, s.epoch, s.start, s.ok, s.op)));
    }
    for (e, t) in rec.truth.iter().enumerate() {
        for (i, (s, ev)) in t.iter().enumerate() {
            items.push((*s, 0, i, "truth".into(), format!("e{e} {:?}", ev)));
        }
    }
    for (i, (s, op)) in rec.store_log.iter().enumerate() {
        items.push((*s, 3, i, "store".into(), fmt_store_op(op)));
    }
    for (i, (s, p, r)) in rec.hist.disconnects.iter().enumerate() {
        items.push((*s, 4, i, "closed".into(), format!("peer{p} {r}")));
    }
    for (i, (s, p)) in rec.hist.attached.iter().enumerate() {
        items.push((*s, 5, i, "attached".into(), format!("peer{p}")));
    }
    for (i, (s, p, w)) in rec.hist.reader_end.iter().enumerate() {
        items.push((*s, 6, i, "reader-end".into(), format!("peer{p} {w}")));
    }
    for (i, f) in rec.hist.target_frames.iter().enumerate() {
        items.push((f.step, 7, i, "target".into(), format!("chan{} {} {} {}", f.chan, f.target, f.lane, body_text(&f.body))));
    }
    for (i, (s, k)) in rec.hist.commander_requests.iter().enumerate() {
        items.push((*s, 8, i, "cmdr-req".into(), k.clone()));
    }
    for (i, (s, m)) in rec.hist.marks.iter().enumerate() {
        items.push((*s, 9, i, "mark".into(), m.clone()));
    }
    for (i, r) in rec.hist.reports.iter().enumerate() {
        items.push((r.step, 10, i, "report".into(), format!("{} links={} events={} commands={}", r.lane, r.link_count, r.event_count, r.command_count)));
    }
    for (i, e) in rec.agent_ends.iter().enumerate() {
        if let Some(e) = e {
            items.push((e.step, 11, i, "agent-end".into(), format!("e{i} {} t={}ms", e.result, e.sim_ms)));
        }
    }
    for (i, p) in rec.panics.iter().enumerate() {
        items.push((p.step, 12, i, "panic".into(), format!("{} {}", p.node, p.message)));
    }
    items.sort_by(|a, b| (a.0, a.1, a.2).cmp(&(b.0, b.1, b.2)));
    let mut log = EventLog::new(keep);
    for (s, _, _, k, d) in items {
        log.rec(s, &k, &d);
    }
    log
}

fn fmt_store_op(op: &store::StoreOp) -> String {
    use store::StoreOp::*;
    match op {
        Put { item, value } => format!("put {item} {}", body_text(value)),
        Delete { item } => format!("delete {item}"),
        Update { item, key, value } => format!("update {item} {} -> {}", body_text(key), body_text(value)),
        Remove { item, key } => format!("remove {item} {}", body_text(key)),
        Clear { item } => format!("clear {item}"),
    }
}

impl World for AgentWorld {
    fn name(&self) -> &'static str {
        self.name
    }

    fn generate(&self, seed: u64, tier: Tier) -> Json {
        serde_json::to_value(scenario::generate(seed, self.focus, tier)).unwrap()
    }

    fn generate_at(&self, verif_seed: u64, index: u64, tier: Tier) -> Json {
        // Thorough tier of the persistence world: crash-point ENUMERATION. 48 consecutive indices share
        // one base scenario (fault free, clean ending) and place the crash at every one of its first 24
        // store calls (process killed inside call k, i.e. after call k-1 took effect) and after each of
        // the first 24 frames read by any remote; each is followed by a restart on the surviving store.
        if self.focus == "C05" && tier == Tier::Thorough {
            const POINTS: u64 = 48;
            let base = index / POINTS;
            let point = index % POINTS;
            let seed = crate::core::rng::mix(verif_seed, self.name, base);
            let mut sc = scenario::generate(seed, self.focus, tier);
            sc.knobs.persistent = true;
            sc.restart = true;
            if point < 24 {
                sc.store_fault = StoreFaultCfg::PanicAt(point);
                sc.ending = Ending::Stop;
            } else {
                sc.store_fault = StoreFaultCfg::None;
                sc.ending = Ending::CrashAfterFrame(point - 23);
            }
            return serde_json::to_value(sc).unwrap();
        }
        self.generate(crate::core::rng::mix(verif_seed, self.name, index), tier)
    }

    fn execute(&self, scenario: &Json, keep_log: bool) -> Outcome {
        let sc: AgentScenario = match serde_json::from_value(scenario.clone()) {
            Ok(s) => s,
            Err(e) => {
                return Outcome { harness_error: Some(format!("bad scenario: {e}")), ..Default::default() };
            }
        };
        let rec = block_on_sim(sc.knobs.tokio_seed, run::run_scenario(&sc, keep_log));
        let log = build_log(&rec, keep_log);
        let mut lines = log.lines().to_vec();
        if !rec.log.lines().is_empty() {
            // Poll trace requested (diagnostics only; not part of the history hash).
            lines.extend(rec.log.lines().iter().cloned());
            lines.sort_by_key(|l| l.trim_start().split(' ').next().and_then(|n| n.parse::<u64>().ok()).unwrap_or(0));
        }
        let violations = if sc.knobs.connector {
            // Lanes opened at run time on a ConnectorAgent: judged against the writing remote's command stream.
            oracle::check_dynlanes(&rec)
        } else {
            let mut v = oracle::check(&rec);
            v.extend(oracle::check_persistence(&rec));
            v.extend(oracle::check_reporting(&rec));
            v
        };
        let mut out = Outcome {
            violations,
            log_hash: log.hash(),
            log_lines: lines,
            steps: rec.steps,
            decisions: rec.decisions,
            sim_time_ms: rec.sim_ms,
            ..Default::default()
        };
        // Counters: fault kinds that actually fired, probes, work done.
        let h = &rec.hist;
        out.count("frames_read", h.frames.len() as u64);
        out.count("requests_written", h.sent.len() as u64);
        out.count("requests_failed", h.sent.iter().filter(|s| !s.ok).count() as u64);
        out.count("truth_events", rec.truth.iter().map(|t| t.len() as u64).sum());
        out.count("store_ops", rec.store_log.len() as u64);
        out.count("fault.peer_frozen", h.freezes.len() as u64);
        out.count("fault.peer_close_read", h.sent.iter().filter(|s| matches!(s.op, scenario::Op::CloseRead)).count() as u64);
        out.count("fault.peer_close_write", h.sent.iter().filter(|s| matches!(s.op, scenario::Op::CloseWrite)).count() as u64);
        out.count("fault.restart_read_error", rec.restart_read_fault_fired as u64);
        {
            let ctls = |f: &dyn Fn(&model::Ctl) -> bool| rec.truth.iter().flatten().filter(|(_, e)| matches!(e, model::TruthEv::Ctl { ctl } if f(ctl))).count() as u64;
            out.count("fault.agent_task_failed_by_handler", ctls(&|c| matches!(c, model::Ctl::Crash)));
            out.count("probe.commander_created_after_start", ctls(&|c| matches!(c, model::Ctl::NewCmdr { .. })));
            out.count("probe.wrapped_handler_sets", ctls(&|c| matches!(c, model::Ctl::SetWrapped { .. })));
        }
        out.count("fault.remote_reattached_same_id", h.marks.iter().filter(|(_, m)| m.contains(" reattaches as ")).count() as u64);
        out.count("probe.remote_never_reattached", h.marks.iter().filter(|(_, m)| m.contains("never-reattached")).count() as u64);
        out.count("fault.peer_torn_frame", h.sent.iter().filter(|s| matches!(s.op, scenario::Op::TornCmd { .. })).count() as u64);
        out.count("fault.bad_command_body", h.sent.iter().filter(|s| s.ok && matches!(s.op, scenario::Op::BadCmd { .. })).count() as u64);
        out.count("fault.store_fault_fired", rec.store_fault_fired as u64);
        out.count("fault.crash", rec.crash_step.is_some() as u64);
        out.count("fault.lane_failed", rec.truth.iter().flatten().filter(|(_, e)| matches!(e, model::TruthEv::LaneFailed { .. })).count() as u64);
        out.count("probe.sleep_ops", h.sent.iter().filter(|s| matches!(s.op, scenario::Op::Sleep { .. })).count() as u64);
        out.count("fault.stop_midstream", matches!(sc.ending, Ending::StopAt(_)) as u64 * rec.stop_step.is_some() as u64);
        out.count("fault.clock_advance", rec.time_advances);
        out.count("end.timeout", (matches!(sc.ending, Ending::Timeout) && rec.quiescent_step.is_some()) as u64);
        out.count("end.restart", rec.restart_step.is_some() as u64);
        out.count("quiescent_runs", rec.quiescent_step.is_some() as u64);
        out.count("stuck_writers", rec.stuck_writers.len() as u64);
        out.count("step_limit_hit", rec.step_limit_hit as u64);
        out.count("target_frames", h.target_frames.len() as u64);
        out.count("reports", h.reports.len() as u64);
        let coalesced = {
            // Probe: some value lane event was skipped for some peer (coalescing happened).
            let mut n = 0u64;
            for lane in model::VALUE_LANES {
                let truth = oracle::value_truth(&rec, 0, lane).len() as u64;
                for p in &sc.peers {
                    let got = h.frames.iter().filter(|f| f.peer == p.id && f.lane == lane && matches!(f.kind, FrameKind::Event(_))).count() as u64;
                    if got > 0 && got + 1 < truth {
                        n += 1;
                    }
                }
            }
            n
        };
        out.count("probe.value_coalesced", coalesced);
        out.count("probe.synced_frames", h.frames.iter().filter(|f| f.kind == FrameKind::Synced).count() as u64);
        out.count("probe.lane_not_found", h.frames.iter().filter(|f| matches!(&f.kind, FrameKind::Unlinked(Some(b)) if b.as_slice() == b"@laneNotFound")).count() as u64);
        out.nontrivial = coalesced > 0
            || !h.freezes.is_empty()
            || rec.crash_step.is_some()
            || rec.store_fault_fired
            || h.sent.iter().any(|s| !s.ok || matches!(s.op, scenario::Op::CloseRead | scenario::Op::CloseWrite | scenario::Op::TornCmd { .. } | scenario::Op::BadCmd { .. }))
            || rec.decisions > 50;
        let _ = StoreFaultCfg::None;
        out
    }

    fn shrink(&self, scenario: &Json) -> Vec<Json> {
        let Ok(sc) = serde_json::from_value::<AgentScenario>(scenario.clone()) else { return vec![] };
        scenario::shrink(&sc).into_iter().map(|s| serde_json::to_value(s).unwrap()).collect()
    }

    fn rule(&self) -> String {
        "one run = one seeded scenario (peer scripts of link/sync/unlink/command/control ops with unique values, \
         channel capacities, lane buffer sizes, coop budgets, read chunk sizes, stalls, freezes, disconnects, ending) \
         executed under one seeded schedule; non-trivial = at least one of: a value event was coalesced away for some peer, \
         a peer froze or disconnected, a request failed, a crash/store fault fired, or more than 50 real scheduling decisions \
         (>1 node ready) were taken; distinct = distinct hash of the full recorded history (frames, requests, ground truth, store calls with step numbers)".into()
    }

    fn components(&self) -> Json {
        json!({
            "real": ["swimos_agent::AgentModel + derive macros (SimAgent lanes/stores)", "swimos_runtime::agent::AgentRouteTask (init, attachment, read, write, http, external links tasks)",
                     "swimos_byte_channel (+coop)", "swimos_messages::protocol codecs", "swimos_agent_protocol codecs", "swimos_recon", "timeout_coord", "reporting", "tokio time (paused clock), mpsc, select!"],
            "stub": ["remote peers (scripted byte-channel endpoints instead of web sockets)", "link server / command targets", "RecordingStore (NodePersistence) instead of RocksDB", "executor (seeded, replaces the tokio scheduler)"]
        })
    }
}
