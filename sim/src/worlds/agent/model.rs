//! The harness agent `SimAgent`: a real `swimos_agent::AgentModel` built with the derive macros.
//! Its lifecycle records the ground truth ("what the lanes actually held") with global step
//! numbers and executes control commands so that the *agent's own handlers* mutate the lanes.

use std::collections::{BTreeMap, HashMap};
use std::sync::{Arc, Mutex};

use swimos::agent::agent_lifecycle::HandlerContext;
use swimos::agent::event_handler::{
    EventHandler, HandlerActionExt, LocalBoxEventHandler, Sequentially, UnitHandler,
};
use swimos::agent::lanes::{CommandLane, MapLane, SupplyLane, ValueLane};
use swimos::agent::stores::{MapStore, ValueStore};
use swimos::agent::{lifecycle, projections, AgentLaneModel};
use swimos_form::Form;

use crate::core::exec::now_step;

#[projections]
#[derive(AgentLaneModel)]
pub struct SimAgent {
    // Three lanes are known to the outside under a name that is not the name of their field.
    #[item(name = "val")]
    val_main: ValueLane<i32>,
    #[item(transient)]
    tval: ValueLane<i32>,
    #[item(name = "map")]
    map_main: MapLane<i32, i32>,
    bmap: MapLane<i32, i32, BTreeMap<i32, i32>>,
    #[item(transient)]
    tmap: MapLane<i32, i32>,
    smap: MapLane<String, i32>,
    #[item(transient, name = "sup")]
    sup_main: SupplyLane<i32>,
    #[item(transient)]
    cmd: CommandLane<i32>,
    vstore: ValueStore<i32>,
    mstore: MapStore<i32, i32>,
    #[item(transient)]
    tvstore: ValueStore<i32>,
    #[item(transient)]
    ctl: CommandLane<Ctl>,
}

impl SimAgent {
    /// An agent whose persistent map lanes are constructed with contents (a custom factory instead of `Default`):
    /// whatever the store holds replaces them when the agent starts with persistence.
    pub fn with_initial_contents() -> SimAgent {
        use swimos_agent::AgentItem;
        let mut a = SimAgent::default();
        let id = a.map_main.id();
        a.map_main = MapLane::new(id, [(900, 800_001), (901, 800_002)].into_iter().collect());
        let id = a.bmap.id();
        a.bmap = MapLane::new(id, [(900, 800_003)].into_iter().collect());
        a
    }
}

/// The value of the command the agent sends from `on_stop` (knob `send_on_stop`).
pub const ON_STOP_VALUE: i32 = 990_001;

pub const VALUE_LANES: [&str; 2] = ["val", "tval"];
pub const MAP_LANES: [&str; 4] = ["map", "bmap", "tmap", "smap"];
pub const PERSISTENT_ITEMS: [&str; 6] = ["val", "map", "bmap", "smap", "vstore", "mstore"];
pub const ALL_LANES: [&str; 9] = [
    "val", "tval", "map", "bmap", "tmap", "smap", "sup", "cmd", "ctl",
];

/// Control commands (sent as Recon to the `ctl` lane); each is executed by the agent's handler.
#[derive(Form, Clone, Debug, PartialEq, Eq)]
pub enum Ctl {
    /// Sets item `item` (0 = val, 1 = tval, 2 = vstore, 3 = tvstore) to `start, start+1, ..` (n values) in one handler.
    #[form(tag = "sv")]
    SetVal { item: i32, start: i32, n: i32 },
    /// Updates key `key` of map item `item` (0 = map, 1 = bmap, 2 = tmap, 3 = mstore) with `n` successive values.
    #[form(tag = "up")]
    Upd {
        item: i32,
        key: i32,
        start: i32,
        n: i32,
    },
    /// Updates `n` successive keys from `key` with successive values from `start`.
    #[form(tag = "uk")]
    UpdKeys {
        item: i32,
        key: i32,
        start: i32,
        n: i32,
    },
    #[form(tag = "rm")]
    Rem { item: i32, key: i32 },
    #[form(tag = "cl")]
    Clr { item: i32 },
    #[form(tag = "su")]
    SUpd { key: String, v: i32 },
    #[form(tag = "sr")]
    SRem { key: String },
    /// Pushes `n` successive items to the supply lane.
    #[form(tag = "pu")]
    Push { start: i32, n: i32 },
    /// Sends `n` ad hoc commands with successive values to lane `target` of node `/target`.
    #[form(tag = "se")]
    Send {
        target: i32,
        overwrite: bool,
        start: i32,
        n: i32,
    },
    /// Sends `n` commands through the registered commander for lane `r{target}` of node `/target`
    /// (`queued`: `send_queued`, never to be dropped; otherwise `send`, overwritable).
    #[form(tag = "cs")]
    CmdrSend {
        target: i32,
        queued: bool,
        start: i32,
        n: i32,
    },
    /// `transform_entry` on key `key` of map item `item`: sets it to `value` (whether or not it was present)
    /// or, with `remove`, removes it; then a snapshot of the whole map is recorded as ground truth.
    #[form(tag = "xf")]
    Xf { item: i32, key: i32, value: i32, remove: bool },
    #[form(tag = "no")]
    Nop,
    /// Creates a commander for lane `r{target}` of node `/target` in a handler that runs long after `on_start`
    /// (`target` 2 or 3; the commanders for r0 and r1 are created in `on_start`). `CmdrSend` to that target uses it.
    #[form(tag = "nc")]
    NewCmdr { target: i32 },
    /// Sets value item `item` like `SetVal`, with the setting handler wrapped: 0 `Some(h).discard()`,
    /// 1 `h.map(..)`, 2 `h.and_then(..)`, 3 `h.followed_by(unit)`.
    #[form(tag = "sw")]
    SetWrapped { item: i32, start: i32, n: i32, shape: i32 },
    /// The handler fails with an error that is fatal for the agent (after recording the command): the agent task
    /// ends with an error; the runtime must still close every open link.
    #[form(tag = "cr")]
    Crash,
}

#[derive(Debug, Clone, PartialEq, Eq)]
pub enum TruthEv {
    Start,
    Stop,
    /// `on_event` of a value lane or store: the item held this value.
    Value { item: &'static str, value: i32 },
    Update { item: &'static str, key: String, value: i32 },
    Remove { item: &'static str, key: String },
    Clear { item: &'static str },
    /// The whole content of a map item read back with `get_map` at the end of a control command.
    MapSnap { item: &'static str, map: BTreeMap<String, i32> },
    /// `on_command` of the `cmd` lane.
    Command { value: i32 },
    /// A control command was handled (after all of its effects).
    Ctl { ctl: Ctl },
    /// An item was pushed to the supply lane by a handler.
    Push { value: i32 },
    /// An ad hoc command was sent by a handler.
    Sent { target: i32, overwrite: bool, value: i32 },
    /// A lane of the scripted (fake) agent failed (garbage on / loss of its channel).
    LaneFailed { item: &'static str },
    /// State read through the handler API in `on_start` (after restoration from the store).
    Restored {
        val: i32,
        tval: i32,
        vstore: i32,
        tvstore: i32,
        map: BTreeMap<i32, i32>,
        bmap: BTreeMap<i32, i32>,
        tmap: BTreeMap<i32, i32>,
        smap: BTreeMap<String, i32>,
        mstore: BTreeMap<i32, i32>,
    },
}

#[derive(Debug, Default)]
pub struct Truth {
    pub events: Vec<(u64, TruthEv)>,
    /// Simulated time (ms since the start of the run) of the events recorded by the model agent's own handlers:
    /// (step, ms).
    pub handler_times: Vec<(u64, u64)>,
}

thread_local! {
    static RUN_T0: std::cell::Cell<Option<tokio::time::Instant>> = const { std::cell::Cell::new(None) };
}

/// Called at the start of a run (on the run's own thread).
pub fn set_run_t0(t0: tokio::time::Instant) {
    RUN_T0.with(|c| c.set(Some(t0)));
}

pub fn sim_ms() -> u64 {
    RUN_T0.with(|c| c.get()).map(|t0| (tokio::time::Instant::now() - t0).as_millis() as u64).unwrap_or(0)
}

pub type SharedTruth = Arc<Mutex<Truth>>;

#[derive(Clone)]
pub struct SimLifecycle {
    pub truth: SharedTruth,
    /// Commanders registered in `on_start` (one per registered target lane).
    pub commanders: Arc<Mutex<Vec<swimos::agent::commander::Commander<SimAgent>>>>,
    /// Commanders created later by `Ctl::NewCmdr`, by target lane number.
    pub late_commanders: Arc<Mutex<BTreeMap<i32, swimos::agent::commander::Commander<SimAgent>>>>,
    /// Ad hoc commands are addressed to a remote host (one channel for all target lanes) instead of locally
    /// (one channel per target lane).
    pub remote_host: bool,
    /// A value that makes the lifecycle handler of a value lane fail (after it has been recorded): the lane keeps
    /// the value and it must still be published.
    pub fail_on_multiple_of: i32,
    /// `on_stop` sends one (non-overwritable) ad hoc command to lane `t2` of `/target`: a notification at shutdown,
    /// which must be forwarded like any other command.
    pub send_on_stop: bool,
}

/// A handler that fails with an error the agent treats as fatal.
struct FatalFailure;

impl swimos::agent::event_handler::HandlerAction<SimAgent> for FatalFailure {
    type Completion = ();

    fn step(
        &mut self,
        _action_context: &mut swimos::agent::event_handler::ActionContext<SimAgent>,
        _meta: swimos_agent::AgentMetadata,
        _context: &SimAgent,
    ) -> swimos::agent::event_handler::StepResult<Self::Completion> {
        swimos::agent::event_handler::StepResult::Fail(swimos::agent::event_handler::EventHandlerError::SteppedAfterComplete)
    }
}

#[derive(Debug)]
pub struct SimFail;

impl std::fmt::Display for SimFail {
    fn fmt(&self, f: &mut std::fmt::Formatter<'_>) -> std::fmt::Result {
        write!(f, "scripted handler failure")
    }
}

impl std::error::Error for SimFail {}

impl SimLifecycle {
    fn rec(&self, ev: TruthEv) {
        let mut t = self.truth.lock().unwrap();
        t.events.push((now_step(), ev));
        t.handler_times.push((now_step(), sim_ms()));
    }
}

type Ctx = HandlerContext<SimAgent>;
type Boxed = LocalBoxEventHandler<'static, SimAgent>;

fn set_item(context: Ctx, item: i32, v: i32) -> Boxed {
    match item {
        0 => context.set_value(SimAgent::VAL_MAIN, v).boxed_local(),
        1 => context.set_value(SimAgent::TVAL, v).boxed_local(),
        2 => context.set_value(SimAgent::VSTORE, v).boxed_local(),
        _ => context.set_value(SimAgent::TVSTORE, v).boxed_local(),
    }
}

fn upd_item(context: Ctx, item: i32, k: i32, v: i32) -> Boxed {
    match item {
        0 => context.update(SimAgent::MAP_MAIN, k, v).boxed_local(),
        1 => context.update(SimAgent::BMAP, k, v).boxed_local(),
        2 => context.update(SimAgent::TMAP, k, v).boxed_local(),
        _ => context.update(SimAgent::MSTORE, k, v).boxed_local(),
    }
}

fn rem_item(context: Ctx, item: i32, k: i32) -> Boxed {
    match item {
        0 => context.remove(SimAgent::MAP_MAIN, k).boxed_local(),
        1 => context.remove(SimAgent::BMAP, k).boxed_local(),
        2 => context.remove(SimAgent::TMAP, k).boxed_local(),
        _ => context.remove(SimAgent::MSTORE, k).boxed_local(),
    }
}

fn clr_item(context: Ctx, item: i32) -> Boxed {
    match item {
        0 => context.clear(SimAgent::MAP_MAIN).boxed_local(),
        1 => context.clear(SimAgent::BMAP).boxed_local(),
        2 => context.clear(SimAgent::TMAP).boxed_local(),
        _ => context.clear(SimAgent::MSTORE).boxed_local(),
    }
}

fn xf_item(context: Ctx, item: i32, k: i32, v: i32, remove: bool) -> Boxed {
    let f = move |_: Option<&i32>| if remove { None } else { Some(v) };
    match item {
        0 => context.transform_entry(SimAgent::MAP_MAIN, k, f).boxed_local(),
        1 => context.transform_entry(SimAgent::BMAP, k, f).boxed_local(),
        2 => context.transform_entry(SimAgent::TMAP, k, f).boxed_local(),
        _ => context.transform_entry(SimAgent::MSTORE, k, f).boxed_local(),
    }
}

fn snap_item(context: Ctx, me: SimLifecycle, item: i32) -> Boxed {
    fn conv<I: IntoIterator<Item = (i32, i32)>>(m: I) -> BTreeMap<String, i32> {
        m.into_iter().map(|(k, v)| (k.to_string(), v)).collect()
    }
    match item {
        0 => context
            .get_map(SimAgent::MAP_MAIN)
            .and_then(move |m: HashMap<i32, i32>| context.effect(move || me.rec(TruthEv::MapSnap { item: "map", map: conv(m) })))
            .boxed_local(),
        1 => context
            .get_map(SimAgent::BMAP)
            .and_then(move |m: BTreeMap<i32, i32>| context.effect(move || me.rec(TruthEv::MapSnap { item: "bmap", map: conv(m) })))
            .boxed_local(),
        2 => context
            .get_map(SimAgent::TMAP)
            .and_then(move |m: HashMap<i32, i32>| context.effect(move || me.rec(TruthEv::MapSnap { item: "tmap", map: conv(m) })))
            .boxed_local(),
        _ => context
            .get_map(SimAgent::MSTORE)
            .and_then(move |m: HashMap<i32, i32>| context.effect(move || me.rec(TruthEv::MapSnap { item: "mstore", map: conv(m) })))
            .boxed_local(),
    }
}

const MAP_ITEM_NAMES: [&str; 4] = ["map", "bmap", "tmap", "mstore"];

#[lifecycle(SimAgent)]
impl SimLifecycle {
    #[on_start]
    pub fn on_start(&self, context: Ctx) -> impl EventHandler<SimAgent> {
        let me = self.clone();
        let me2 = self.clone();
        context
            .get_value(SimAgent::VAL_MAIN)
            .and_then(move |val: i32| {
                context.get_value(SimAgent::TVAL).and_then(move |tval: i32| {
                    context
                        .get_value(SimAgent::VSTORE)
                        .and_then(move |vstore: i32| {
                            context
                                .get_value(SimAgent::TVSTORE)
                                .map(move |tvstore: i32| (val, tval, vstore, tvstore))
                        })
                })
            })
            .and_then(move |(val, tval, vstore, tvstore)| {
                context
                    .get_map(SimAgent::MAP_MAIN)
                    .and_then(move |map: HashMap<i32, i32>| {
                        context
                            .get_map(SimAgent::BMAP)
                            .and_then(move |bmap: BTreeMap<i32, i32>| {
                                context.get_map(SimAgent::TMAP).and_then(
                                    move |tmap: HashMap<i32, i32>| {
                                        context.get_map(SimAgent::SMAP).and_then(
                                            move |smap: HashMap<String, i32>| {
                                                context.get_map(SimAgent::MSTORE).map(
                                                    move |mstore: HashMap<i32, i32>| {
                                                        me.rec(TruthEv::Restored {
                                                            val,
                                                            tval,
                                                            vstore,
                                                            tvstore,
                                                            map: map.into_iter().collect(),
                                                            bmap,
                                                            tmap: tmap.into_iter().collect(),
                                                            smap: smap.into_iter().collect(),
                                                            mstore: mstore.into_iter().collect(),
                                                        });
                                                    },
                                                )
                                            },
                                        )
                                    },
                                )
                            })
                    })
            })
            .followed_by(context.effect(move || me2.rec(TruthEv::Start)))
            .followed_by({
                let me3 = self.clone();
                context.create_commander(None, "/target", "r0").and_then(move |c0| {
                    context.create_commander(None, "/target", "r1").map(move |c1| {
                        let mut g = me3.commanders.lock().unwrap();
                        g.clear();
                        g.push(c0);
                        g.push(c1);
                    })
                })
            })
    }

    #[on_stop]
    pub fn on_stop(&self, context: Ctx) -> impl EventHandler<SimAgent> {
        let me = self.clone();
        let me2 = self.clone();
        let send: Option<Boxed> = if self.send_on_stop {
            let host = if self.remote_host { Some("ws://remote:9001") } else { None };
            let addr = swimos_api::address::Address::text(host, "/target", "t2");
            Some(
                swimos_agent::event_handler::SendCommand::new(addr, ON_STOP_VALUE, false)
                    .followed_by(context.effect(move || me2.rec(TruthEv::Sent { target: 2, overwrite: false, value: ON_STOP_VALUE })))
                    .boxed_local(),
            )
        } else {
            None
        };
        context.effect(move || me.rec(TruthEv::Stop)).followed_by(send.discard())
    }

    #[on_event(val_main)]
    pub fn val_event(&self, context: Ctx, value: &i32) -> impl EventHandler<SimAgent> {
        let me = self.clone();
        let v = *value;
        let m = self.fail_on_multiple_of;
        // The handler fails for some values, after the lane has taken the value: it must be published all the same.
        let fail = if m > 0 && v % m == 0 { Some(context.fail::<(), SimFail>(SimFail)) } else { None };
        context.effect(move || me.rec(TruthEv::Value { item: "val", value: v })).followed_by(fail.discard())
    }

    #[on_event(tval)]
    pub fn tval_event(&self, context: Ctx, value: &i32) -> impl EventHandler<SimAgent> {
        let me = self.clone();
        let v = *value;
        let m = self.fail_on_multiple_of;
        // The handler fails for some values, after the lane has taken the value: it must be published all the same.
        let fail = if m > 0 && v % m == 0 { Some(context.fail::<(), SimFail>(SimFail)) } else { None };
        context.effect(move || me.rec(TruthEv::Value { item: "tval", value: v })).followed_by(fail.discard())
    }

    #[on_event(vstore)]
    pub fn vstore_event(&self, context: Ctx, value: &i32) -> impl EventHandler<SimAgent> {
        let me = self.clone();
        let v = *value;
        context.effect(move || me.rec(TruthEv::Value { item: "vstore", value: v }))
    }

    #[on_event(tvstore)]
    pub fn tvstore_event(&self, context: Ctx, value: &i32) -> impl EventHandler<SimAgent> {
        let me = self.clone();
        let v = *value;
        context.effect(move || me.rec(TruthEv::Value { item: "tvstore", value: v }))
    }

    #[on_update(map_main)]
    pub fn map_update(
        &self,
        context: Ctx,
        _map: &HashMap<i32, i32>,
        key: i32,
        _prev: Option<i32>,
        new_value: &i32,
    ) -> impl EventHandler<SimAgent> {
        let me = self.clone();
        let v = *new_value;
        context.effect(move || me.rec(TruthEv::Update { item: "map", key: key.to_string(), value: v }))
    }

    #[on_remove(map_main)]
    pub fn map_remove(&self, context: Ctx, _map: &HashMap<i32, i32>, key: i32, _prev: i32) -> impl EventHandler<SimAgent> {
        let me = self.clone();
        context.effect(move || me.rec(TruthEv::Remove { item: "map", key: key.to_string() }))
    }

    #[on_clear(map_main)]
    pub fn map_clear(&self, context: Ctx, _prev: HashMap<i32, i32>) -> impl EventHandler<SimAgent> {
        let me = self.clone();
        context.effect(move || me.rec(TruthEv::Clear { item: "map" }))
    }

    #[on_update(bmap)]
    pub fn bmap_update(
        &self,
        context: Ctx,
        _map: &BTreeMap<i32, i32>,
        key: i32,
        _prev: Option<i32>,
        new_value: &i32,
    ) -> impl EventHandler<SimAgent> {
        let me = self.clone();
        let v = *new_value;
        context.effect(move || me.rec(TruthEv::Update { item: "bmap", key: key.to_string(), value: v }))
    }

    #[on_remove(bmap)]
    pub fn bmap_remove(&self, context: Ctx, _map: &BTreeMap<i32, i32>, key: i32, _prev: i32) -> impl EventHandler<SimAgent> {
        let me = self.clone();
        context.effect(move || me.rec(TruthEv::Remove { item: "bmap", key: key.to_string() }))
    }

    #[on_clear(bmap)]
    pub fn bmap_clear(&self, context: Ctx, _prev: BTreeMap<i32, i32>) -> impl EventHandler<SimAgent> {
        let me = self.clone();
        context.effect(move || me.rec(TruthEv::Clear { item: "bmap" }))
    }

    #[on_update(tmap)]
    pub fn tmap_update(
        &self,
        context: Ctx,
        _map: &HashMap<i32, i32>,
        key: i32,
        _prev: Option<i32>,
        new_value: &i32,
    ) -> impl EventHandler<SimAgent> {
        let me = self.clone();
        let v = *new_value;
        context.effect(move || me.rec(TruthEv::Update { item: "tmap", key: key.to_string(), value: v }))
    }

    #[on_remove(tmap)]
    pub fn tmap_remove(&self, context: Ctx, _map: &HashMap<i32, i32>, key: i32, _prev: i32) -> impl EventHandler<SimAgent> {
        let me = self.clone();
        context.effect(move || me.rec(TruthEv::Remove { item: "tmap", key: key.to_string() }))
    }

    #[on_clear(tmap)]
    pub fn tmap_clear(&self, context: Ctx, _prev: HashMap<i32, i32>) -> impl EventHandler<SimAgent> {
        let me = self.clone();
        context.effect(move || me.rec(TruthEv::Clear { item: "tmap" }))
    }

    #[on_update(mstore)]
    pub fn mstore_update(
        &self,
        context: Ctx,
        _map: &HashMap<i32, i32>,
        key: i32,
        _prev: Option<i32>,
        new_value: &i32,
    ) -> impl EventHandler<SimAgent> {
        let me = self.clone();
        let v = *new_value;
        context.effect(move || me.rec(TruthEv::Update { item: "mstore", key: key.to_string(), value: v }))
    }

    #[on_remove(mstore)]
    pub fn mstore_remove(&self, context: Ctx, _map: &HashMap<i32, i32>, key: i32, _prev: i32) -> impl EventHandler<SimAgent> {
        let me = self.clone();
        context.effect(move || me.rec(TruthEv::Remove { item: "mstore", key: key.to_string() }))
    }

    #[on_clear(mstore)]
    pub fn mstore_clear(&self, context: Ctx, _prev: HashMap<i32, i32>) -> impl EventHandler<SimAgent> {
        let me = self.clone();
        context.effect(move || me.rec(TruthEv::Clear { item: "mstore" }))
    }

    #[on_update(smap)]
    pub fn smap_update(
        &self,
        context: Ctx,
        _map: &HashMap<String, i32>,
        key: String,
        _prev: Option<i32>,
        new_value: &i32,
    ) -> impl EventHandler<SimAgent> {
        let me = self.clone();
        let v = *new_value;
        context.effect(move || me.rec(TruthEv::Update { item: "smap", key, value: v }))
    }

    #[on_remove(smap)]
    pub fn smap_remove(&self, context: Ctx, _map: &HashMap<String, i32>, key: String, _prev: i32) -> impl EventHandler<SimAgent> {
        let me = self.clone();
        context.effect(move || me.rec(TruthEv::Remove { item: "smap", key }))
    }

    #[on_clear(smap)]
    pub fn smap_clear(&self, context: Ctx, _prev: HashMap<String, i32>) -> impl EventHandler<SimAgent> {
        let me = self.clone();
        context.effect(move || me.rec(TruthEv::Clear { item: "smap" }))
    }

    #[on_command(cmd)]
    pub fn on_cmd(&self, context: Ctx, value: &i32) -> impl EventHandler<SimAgent> {
        let me = self.clone();
        let v = *value;
        context.effect(move || me.rec(TruthEv::Command { value: v }))
    }

    #[on_command(ctl)]
    pub fn on_ctl(&self, context: Ctx, ctl: &Ctl) -> impl EventHandler<SimAgent> {
        let me = self.clone();
        let done = ctl.clone();
        let mut hs: Vec<Boxed> = vec![];
        match ctl.clone() {
            Ctl::SetVal { item, start, n } => {
                for i in 0..n {
                    hs.push(set_item(context, item, start + i));
                }
            }
            Ctl::Upd { item, key, start, n } => {
                for i in 0..n {
                    hs.push(upd_item(context, item, key, start + i));
                }
            }
            Ctl::UpdKeys { item, key, start, n } => {
                for i in 0..n {
                    hs.push(upd_item(context, item, key + i, start + i));
                }
            }
            Ctl::Rem { item, key } => hs.push(rem_item(context, item, key)),
            Ctl::Clr { item } => hs.push(clr_item(context, item)),
            Ctl::SUpd { key, v } => hs.push(context.update(SimAgent::SMAP, key, v).boxed_local()),
            Ctl::SRem { key } => hs.push(context.remove(SimAgent::SMAP, key).boxed_local()),
            Ctl::Push { start, n } => {
                for i in 0..n {
                    let me = self.clone();
                    let v = start + i;
                    hs.push(
                        context
                            .supply(SimAgent::SUP_MAIN, v)
                            .followed_by(context.effect(move || me.rec(TruthEv::Push { value: v })))
                            .boxed_local(),
                    );
                }
            }
            Ctl::Send { target, overwrite, start, n } => {
                for i in 0..n {
                    let me = self.clone();
                    let v = start + i;
                    let host = if self.remote_host { Some("ws://remote:9001") } else { None };
                    let addr = swimos_api::address::Address::text(host, "/target", &format!("t{target}"));
                    hs.push(
                        swimos_agent::event_handler::SendCommand::new(addr, v, overwrite)
                            .followed_by(context.effect(move || me.rec(TruthEv::Sent { target, overwrite, value: v })))
                            .boxed_local(),
                    );
                }
            }
            Ctl::CmdrSend { target, queued, start, n } => {
                let late = self.late_commanders.lock().unwrap().get(&target).copied();
                let lane_no = if late.is_some() { target } else { target.rem_euclid(2) };
                let cmdr = late.or_else(|| self.commanders.lock().unwrap().get(target.rem_euclid(2) as usize).copied());
                if let Some(cmdr) = cmdr {
                    for i in 0..n {
                        let me = self.clone();
                        let v = start + i;
                        let send = if queued { cmdr.send_queued(v) } else { cmdr.send(v) };
                        hs.push(
                            send.followed_by(context.effect(move || me.rec(TruthEv::Sent { target: 10 + lane_no, overwrite: !queued, value: v })))
                                .boxed_local(),
                        );
                    }
                }
            }
            Ctl::Xf { item, key, value, remove } => {
                hs.push(xf_item(context, item, key, value, remove));
                hs.push(snap_item(context, self.clone(), item));
            }
            Ctl::Nop => hs.push(UnitHandler::default().boxed_local()),
            Ctl::NewCmdr { target } => {
                let me = self.clone();
                let t = 2 + target.rem_euclid(2);
                hs.push(
                    context
                        .create_commander(None, "/target", format!("r{t}").as_str())
                        .map(move |c| {
                            me.late_commanders.lock().unwrap().insert(t, c);
                        })
                        .boxed_local(),
                );
            }
            Ctl::SetWrapped { item, start, n, shape } => {
                for i in 0..n {
                    let h = set_item(context, item, start + i);
                    hs.push(match shape.rem_euclid(4) {
                        0 => Some(h).discard().boxed_local(),
                        1 => h.map(|_| ()).boxed_local(),
                        2 => h.and_then(move |_| UnitHandler::default()).boxed_local(),
                        _ => h.followed_by(UnitHandler::default()).boxed_local(),
                    });
                }
            }
            Ctl::Crash => {
                let me = self.clone();
                let c = ctl.clone();
                hs.push(context.effect(move || me.rec(TruthEv::Ctl { ctl: c })).boxed_local());
                hs.push(FatalFailure.boxed_local());
            }
        }
        let _ = MAP_ITEM_NAMES;
        Sequentially::new(hs).followed_by(context.effect(move || me.rec(TruthEv::Ctl { ctl: done })))
    }
}
