//! Explicit scenarios of the agent world: knobs, per-peer scripts, faults, ending. A scenario is a
//! pure function of the run seed; replay files store the scenario itself, and minimisation edits it.

use serde::{Deserialize, Serialize};

use crate::core::rng::Rng;
use crate::core::Tier;

#[derive(Debug, Clone, Serialize, Deserialize, PartialEq, Eq)]
pub enum Op {
    Link { lane: String },
    Sync { lane: String },
    Unlink { lane: String },
    /// A command envelope with a Recon body.
    Cmd { lane: String, body: String },
    /// Yield this many times.
    Pause { polls: u32 },
    /// Wait until the reader half has seen `linked` for the lane (gives up when the run goes idle).
    AwaitLinked { lane: String },
    AwaitSynced { lane: String },
    /// Wait until this peer has read everything that the agent had produced (harness-level
    /// barrier: returns at the next idle point).
    Barrier,
    /// Drop the write half (the agent sees EOF on its reader).
    CloseWrite,
    /// Drop the read half (the agent's writes fail).
    CloseRead,
    /// Let this much simulated time pass (the run's clock only moves when every node is idle).
    Sleep { ms: u64 },
    /// A command envelope whose body the lane cannot accept (malformed Recon / wrong shape): it must have no
    /// effect and must not disturb anything that follows.
    BadCmd { lane: String, body: String },
    /// The peer dies in the middle of a command frame: only the first `keep_pm`/1000 of the encoded frame
    /// is written, then the write half is dropped. The truncated command must never be delivered.
    TornCmd { lane: String, body: String, keep_pm: u32 },
}

#[derive(Debug, Clone, Serialize, Deserialize, PartialEq, Eq)]
pub struct ReadCfg {
    /// Maximum number of bytes taken per poll.
    pub max_chunk: u32,
    /// Chance (per mille) that a poll starts a stall.
    pub stall_pm: u32,
    /// Maximum stall length in polls.
    pub stall_max: u32,
    /// After this many polls the reader stops reading until the drain phase (0 = never).
    pub freeze_after: u32,
}

#[derive(Debug, Clone, Serialize, Deserialize, PartialEq, Eq)]
pub struct PeerScript {
    pub id: u32,
    /// Capacity of the channel agent -> peer.
    pub out_cap: u32,
    /// Capacity of the channel peer -> agent.
    pub in_cap: u32,
    pub chunk_seed: u64,
    pub read: ReadCfg,
    /// Number of polls the writer waits before attaching.
    pub attach_delay: u32,
    /// Attach through the one-way (commander) request: no output channel.
    pub one_way: bool,
    pub ops: Vec<Op>,
    /// This peer is the remote of peer `reattach_of` coming back: it uses that peer's remote id and attaches once
    /// the runtime has reported that remote gone (it never attaches if that does not happen).
    #[serde(default, skip_serializing_if = "Option::is_none")]
    pub reattach_of: Option<u32>,
    /// With `reattach_of`: do not wait for the earlier remote to be gone - attach under its id while it is still
    /// attached (a client that reconnects before the server has noticed that the old connection is dead). The runtime
    /// replaces the old registration; the new one must start from nothing.
    #[serde(default, skip_serializing_if = "std::ops::Not::not")]
    pub reattach_immediately: bool,
    /// The peer attaches only after this much simulated time has passed (0: at once).
    #[serde(default, skip_serializing_if = "is_zero")]
    pub attach_after_ms: u64,
}

fn is_zero(v: &u64) -> bool {
    *v == 0
}

#[derive(Debug, Clone, Serialize, Deserialize, PartialEq, Eq)]
pub enum PolicyCfg {
    Random,
    Lowest,
    RoundRobin,
    Pct { change_points: u32 },
    StarveAgent { steps: u64 },
}

#[derive(Debug, Clone, Serialize, Deserialize, PartialEq, Eq)]
pub struct Knobs {
    pub lane_in_buf: u32,
    pub lane_out_buf: u32,
    pub att_queue: u32,
    pub cmd_buf: u32,
    pub budget_agent: u32,
    pub budget_peer: u32,
    pub inactive_timeout_ms: u64,
    pub prune_ms: u64,
    pub shutdown_ms: u64,
    pub policy: PolicyCfg,
    pub sched_seed: u64,
    pub tokio_seed: u64,
    /// Ad hoc commands go to a remote host (one channel for all target lanes).
    #[serde(default)]
    pub remote_host: bool,
    /// Values that are multiples of this make the on_event handler of `val` / `tval` fail (0 = never).
    #[serde(default)]
    pub fail_on_multiple_of: i32,
    /// The agent configuration makes every lane transient (`AgentConfig::default_lane_config.transient`): no lane
    /// may reach the store and every lane restarts from its default; the stores stay persistent.
    #[serde(default)]
    pub all_lanes_transient: bool,
    /// The agent is built by a factory that fills the persistent map lanes `map` and `bmap` (instead of `Default`).
    #[serde(default)]
    pub initial_contents: bool,
    /// The agent is a `ConnectorAgent` (swimos_connector) whose lanes `val` and `map` are opened in `on_start` and
    /// resolved by selectors (focus DYN).
    #[serde(default)]
    pub connector: bool,
    /// The agent's `on_stop` sends an ad hoc command (a notification at shutdown).
    #[serde(default)]
    pub send_on_stop: bool,
    /// The first channel opened for each command target is closed by the target after it has read this many commands
    /// (0: never) - a target agent that stops; the next channel for the target stays open.
    #[serde(default)]
    pub target_close_after: u32,
    /// Start value of std's hash keys on the run's thread (iteration order of the product's HashMaps).
    #[serde(default)]
    pub hash_seed: u64,
    /// Run with a (recording) store.
    pub persistent: bool,
    /// Capacity of the channels handed to the agent for outgoing commands.
    pub target_cap: u32,
    /// Read speed of command targets.
    pub target_read: ReadCfg,
    /// The link server answers a commander request after this many polls.
    pub link_delay: u32,
    /// Register reporting (introspection) for the agent.
    pub reporting: bool,
}

#[derive(Debug, Clone, Serialize, Deserialize, PartialEq, Eq)]
pub enum StoreFaultCfg {
    None,
    ErrorAt(u64),
    PanicAt(u64),
}

#[derive(Debug, Clone, Serialize, Deserialize, PartialEq, Eq)]
pub enum Ending {
    /// Drain, check quiescence, then fire the stop trigger and run to completion.
    Stop,
    /// Drain, check quiescence, then let simulated time pass until the agent stops by itself.
    Timeout,
    /// Fire the stop trigger when the global step counter reaches this value (mid-stream).
    StopAt(u64),
    /// Drop the agent future when the global step counter reaches this value (crash).
    CrashAt(u64),
    /// Drop the agent future right after the n-th frame has been read by any peer.
    CrashAfterFrame(u64),
}

#[derive(Debug, Clone, Serialize, Deserialize, PartialEq, Eq)]
pub struct AgentScenario {
    pub focus: String,
    pub knobs: Knobs,
    pub peers: Vec<PeerScript>,
    pub store_fault: StoreFaultCfg,
    pub ending: Ending,
    /// After the ending, start a new agent instance on the same store and sync every lane.
    pub restart: bool,
    /// The k-th read (get_value / read_map) of the restarted instance fails: the restart may fail, but an item
    /// must never come back with its default while the store holds a value for it.
    #[serde(default, skip_serializing_if = "Option::is_none")]
    pub restart_read_fault: Option<u64>,
    pub max_steps: u64,
    /// Run the scripted agent of W-FAKEAGENT (value lanes val / tval only) instead of the real agent model.
    #[serde(default)]
    pub fake: Option<super::fake::FailPlan>,
    /// The scripted agent in persistent mode (focus C05F).
    #[serde(default, skip_serializing_if = "Option::is_none")]
    pub fake_persist: Option<super::fake::PersistPlan>,
}

pub fn val_lane_item(lane: &str) -> Option<i32> {
    match lane {
        "val" => Some(0),
        "tval" => Some(1),
        _ => None,
    }
}

pub fn map_lane_item(lane: &str) -> Option<i32> {
    match lane {
        "map" => Some(0),
        "bmap" => Some(1),
        "tmap" => Some(2),
        _ => None,
    }
}

struct Gen {
    rng: Rng,
    next_val: i32,
    /// Added to every integer map key: the key sets {0..}, {8..} (one and two digits) and {-3..} (negative and
    /// positive) order differently as numbers and as text.
    key_off: i32,
    /// The scripted agent has no control lane: only direct commands.
    fake: bool,
    fake_persist: bool,
}

impl Gen {
    fn vals(&mut self, n: i32) -> i32 {
        let s = self.next_val;
        self.next_val += n.max(1);
        s
    }
}

/// The scripted agent in lane-failure mode (it has a map lane too); the persistent mode has none at start.
fn focus_is_c04f(g: &Gen) -> bool {
    g.fake && !g.fake_persist
}

const SMAP_KEYS: [&str; 6] = ["a", "b c", "true", "", "\"q\"", "é\\n"];

fn recon_str(s: &str) -> String {
    // Always quoted, with the escapes the Recon grammar defines.
    let mut out = String::from("\"");
    for c in s.chars() {
        match c {
            '"' => out.push_str("\\\""),
            '\\' => out.push_str("\\\\"),
            '\n' => out.push_str("\\n"),
            c => out.push(c),
        }
    }
    out.push('"');
    out
}

pub fn ctl_recon(ctl: &super::model::Ctl) -> String {
    swimos_recon::print_recon_compact(ctl).to_string()
}

/// Workload weights per focus.
#[derive(Clone, Copy)]
struct Mix {
    value: u64,
    map: u64,
    smap: u64,
    supply: u64,
    command: u64,
    send: u64,
    stores: u64,
    link_churn: u64,
    unknown_lane: u64,
    disconnect: u64,
    sync: u64,
}

fn mix_for(focus: &str) -> Mix {
    match focus {
        "C01" => Mix { value: 10, map: 0, smap: 0, supply: 0, command: 0, send: 0, stores: 0, link_churn: 1, unknown_lane: 0, disconnect: 0, sync: 2 },
        "C02" => Mix { value: 0, map: 10, smap: 2, supply: 0, command: 0, send: 0, stores: 0, link_churn: 1, unknown_lane: 0, disconnect: 0, sync: 1 },
        "C03" => Mix { value: 4, map: 8, smap: 1, supply: 0, command: 0, send: 0, stores: 0, link_churn: 1, unknown_lane: 0, disconnect: 0, sync: 6 },
        "C04" => Mix { value: 4, map: 4, smap: 1, supply: 2, command: 1, send: 0, stores: 0, link_churn: 6, unknown_lane: 2, disconnect: 2, sync: 4 },
        "C05" => Mix { value: 5, map: 6, smap: 1, supply: 0, command: 0, send: 0, stores: 4, link_churn: 1, unknown_lane: 0, disconnect: 0, sync: 2 },
        "C14" => Mix { value: 2, map: 0, smap: 0, supply: 8, command: 6, send: 6, stores: 0, link_churn: 2, unknown_lane: 0, disconnect: 0, sync: 1 },
        "C05F" => Mix { value: 10, map: 0, smap: 0, supply: 0, command: 0, send: 0, stores: 0, link_churn: 3, unknown_lane: 0, disconnect: 0, sync: 3 },
        "C04F" => Mix { value: 8, map: 0, smap: 0, supply: 0, command: 0, send: 0, stores: 0, link_churn: 4, unknown_lane: 1, disconnect: 1, sync: 4 },
        "C20" => Mix { value: 3, map: 3, smap: 0, supply: 2, command: 2, send: 0, stores: 0, link_churn: 8, unknown_lane: 1, disconnect: 3, sync: 2 },
        _ => Mix { value: 4, map: 4, smap: 1, supply: 2, command: 2, send: 1, stores: 1, link_churn: 2, unknown_lane: 1, disconnect: 1, sync: 3 },
    }
}

fn pick_value_lane(rng: &mut Rng) -> &'static str {
    if rng.chance(2, 3) { "val" } else { "tval" }
}

fn pick_map_lane(rng: &mut Rng) -> &'static str {
    *rng.pick(&["map", "map", "bmap", "bmap", "tmap"])
}

fn gen_read(rng: &mut Rng, slow_bias: bool) -> ReadCfg {
    let max_chunk = if slow_bias {
        *rng.pick(&[1u32, 2, 3, 5, 8, 16, 64, 4096])
    } else {
        *rng.pick(&[3u32, 16, 64, 4096, 4096])
    };
    let stall_pm = *rng.pick(&[0u32, 0, 20, 100, 300]);
    let stall_max = *rng.pick(&[1u32, 3, 10, 40]);
    let freeze_after = if rng.chance(1, 8) { rng.range(1, 30) as u32 } else { 0 };
    ReadCfg { max_chunk, stall_pm, stall_max, freeze_after }
}

pub fn generate(seed: u64, focus: &str, _tier: Tier) -> AgentScenario {
    let root = Rng::new(seed);
    let mut g = Gen { rng: root.sub("scenario"), key_off: *root.sub("key-off").pick(&[0i32, 0, 8, 8, -3, 97]), next_val: 1000, fake: focus == "C04F" || focus == "C05F", fake_persist: focus == "C05F" };
    let mix = mix_for(focus);
    let small = g.rng.chance(3, 4);
    let buf_choices: &[u32] = if small { &[8, 12, 16, 24, 32, 48, 64, 128] } else { &[256, 4096] };
    let policy = match g.rng.below(10) {
        0 => PolicyCfg::Lowest,
        1 => PolicyCfg::RoundRobin,
        2 | 3 => PolicyCfg::Pct { change_points: g.rng.range(0, 3) as u32 },
        4 => PolicyCfg::StarveAgent { steps: g.rng.range(20, 400) },
        _ => PolicyCfg::Random,
    };
    let mut knobs = Knobs {
        lane_in_buf: *g.rng.pick(buf_choices),
        lane_out_buf: *g.rng.pick(buf_choices),
        att_queue: *g.rng.pick(&[1u32, 2, 4, 16]),
        cmd_buf: *g.rng.pick(&[32u32, 64, 128, 4096]),
        budget_agent: *g.rng.pick(&[2u32, 3, 5, 8, 64]),
        budget_peer: *g.rng.pick(&[2u32, 3, 8, 64]),
        inactive_timeout_ms: *g.rng.pick(&[5_000u64, 30_000, 60_000]),
        prune_ms: *g.rng.pick(&[1_000u64, 5_000, 30_000]),
        shutdown_ms: *g.rng.pick(&[2_000u64, 10_000, 30_000]),
        policy,
        sched_seed: root.sub("sched").next_u64(),
        tokio_seed: root.sub("tokio").next_u64(),
        hash_seed: root.sub("hash").next_u64() | 1,
        remote_host: root.sub("remote-host").chance(1, 2),
        all_lanes_transient: (focus == "C05" || focus == "MIX") && root.sub("lanes-transient").chance(1, 6),
        initial_contents: matches!(focus, "C05" | "C02" | "C03" | "MIX") && root.sub("initial-contents").chance(1, 5),
        connector: focus == "DYN",
        send_on_stop: matches!(focus, "C14" | "MIX") && root.sub("send-on-stop").chance(1, 4),
        target_close_after: if matches!(focus, "C14" | "MIX") && root.sub("target-close").chance(1, 4) { root.sub("target-close-n").range(1, 3) as u32 } else { 0 },
        fail_on_multiple_of: if focus == "C01" && root.sub("handler-fail").chance(1, 3) { 7 } else { 0 },
        persistent: focus != "C04F" && (focus == "C05" || focus == "C05F" || g.rng.chance(1, 3)),
        target_cap: *g.rng.pick(&[8u32, 16, 32, 64, 4096]),
        target_read: gen_read(&mut g.rng, true),
        link_delay: *g.rng.pick(&[0u32, 0, 3, 20]),
        reporting: focus == "C20" || (focus == "C04F" && g.rng.chance(1, 2)) || g.rng.chance(1, 4),
    };
    if focus == "DYN" {
        return generate_dyn(root, g, knobs);
    }
    let n_peers = match focus {
        "C05" => g.rng.range(1, 2),
        _ => g.rng.range(1, 4),
    } as u32;
    let key_pool = g.rng.range(1, 6) as i32;
    let mut peers = vec![];
    for id in 0..n_peers {
        let out_cap = *g.rng.pick(&[4u32, 8, 16, 32, 64, 256, 4096]);
        let in_cap = *g.rng.pick(&[4u32, 8, 16, 64, 4096]);
        let read = gen_read(&mut g.rng, true);
        let n_ops = g.rng.range(0, if focus == "C05" { 16 } else { 28 });
        let mut ops = vec![];
        // Most peers start by linking (some by syncing, some by neither) to the lanes of the focus.
        let observe = g.rng.below(10);
        let mut linked_lanes: Vec<String> = vec![];
        let lanes_of_focus = focus_lanes(&mix, &mut g.rng);
        for lane in lanes_of_focus {
            match observe {
                0 => {}
                1..=2 => {
                    ops.push(Op::Sync { lane: lane.to_string() });
                    linked_lanes.push(lane.to_string());
                }
                3..=5 => {
                    ops.push(Op::Link { lane: lane.to_string() });
                    ops.push(Op::Sync { lane: lane.to_string() });
                    linked_lanes.push(lane.to_string());
                }
                6 => {
                    ops.push(Op::Link { lane: lane.to_string() });
                    ops.push(Op::AwaitLinked { lane: lane.to_string() });
                    linked_lanes.push(lane.to_string());
                }
                _ => {
                    ops.push(Op::Link { lane: lane.to_string() });
                    linked_lanes.push(lane.to_string());
                }
            }
        }
        for _ in 0..n_ops {
            gen_op(&mut g, &mix, key_pool, &mut ops, &mut linked_lanes);
        }
        // Faults of the peer's own frames (separate stream: the rest of the script does not depend on it).
        if !g.fake {
            let mut fr = root.sub(&format!("frame-faults{id}"));
            if fr.chance(1, 4) {
                for _ in 0..fr.range(1, 2) {
                    let lane = fr.pick(&["val", "tval", "map", "bmap", "smap", "cmd", "ctl", "sup"]).to_string();
                    let body = match lane.as_str() {
                        "map" | "bmap" | "smap" => *fr.pick(&["@update(key:", "@bogus", "abc", "@remove", "@update(key:1,x:2)", "\""]),
                        "ctl" => *fr.pick(&["@up{item:1}", "@nothing", "{", "7"]),
                        _ => *fr.pick(&["abc", "@foo", "{1,2}", "\"", "1.5e"]),
                    };
                    let pos = fr.usize_below(ops.len() + 1);
                    ops.insert(pos, Op::BadCmd { lane, body: body.to_string() });
                }
            }
            if fr.chance(1, 8) {
                let lane = fr.pick(&["val", "map", "cmd", "ctl"]).to_string();
                let body = match lane.as_str() {
                    "map" => format!("@update(key:{}) {}", fr.range(0, 3), 900_000 + fr.range(0, 999)),
                    "ctl" => { use super::model::Ctl; ctl_recon(&Ctl::SetVal { item: 0, start: 900_000 + fr.range(0, 999) as i32, n: 1 }) }
                    _ => format!("{}", 900_000 + fr.range(0, 999)),
                };
                let pos = fr.usize_below(ops.len() + 1);
                ops.insert(pos, Op::TornCmd { lane, body, keep_pm: fr.range(1, 999) as u32 });
            }
        }
        peers.push(PeerScript {
            id,
            out_cap,
            in_cap,
            chunk_seed: root.sub(&format!("chunk{id}")).next_u64(),
            read,
            attach_delay: *g.rng.pick(&[0u32, 0, 0, 5, 30]),
            one_way: false,
            ops,
            reattach_of: None,
            attach_after_ms: 0,
            reattach_immediately: false,
        });
    }
    // Remotes that come and go in simulated time (C04 focus): one attaches and never links (the runtime prunes it after
    // `prune_ms`), a second one attaches shortly before that deadline, links shortly after it and keeps the agent busy
    // with commands that are less than an inactivity period apart. The agent must stay up all the while.
    {
        let mut ir = root.sub("idle-attach");
        if focus == "C04" && ir.chance(1, 8) {
            let p = *ir.pick(&[200u64, 1000, 4000]);
            let t = p * *ir.pick(&[3u64, 5]);
            knobs.prune_ms = p;
            knobs.inactive_timeout_ms = t;
            let base = peers.len() as u32;
            peers.push(PeerScript {
                id: base,
                out_cap: 4096,
                in_cap: 4096,
                chunk_seed: root.sub(&format!("chunk{base}")).next_u64(),
                read: ReadCfg { max_chunk: 4096, stall_pm: 0, stall_max: 1, freeze_after: 0 },
                attach_delay: 0,
                one_way: false,
                ops: vec![],
                reattach_of: None,
                attach_after_ms: 0,
                reattach_immediately: false,
            });
            let mut ops = vec![Op::Sleep { ms: p / 5 }, Op::Link { lane: "val".into() }];
            for _ in 0..ir.range(2, 5) {
                let v = g.vals(1);
                ops.push(Op::Cmd { lane: "val".into(), body: v.to_string() });
                ops.push(Op::Sleep { ms: t / 2 });
            }
            peers.push(PeerScript {
                id: base + 1,
                out_cap: 4096,
                in_cap: 4096,
                chunk_seed: root.sub(&format!("chunk{}", base + 1)).next_u64(),
                read: ReadCfg { max_chunk: 4096, stall_pm: 0, stall_max: 1, freeze_after: 0 },
                attach_delay: 0,
                one_way: false,
                ops,
                reattach_of: None,
                attach_after_ms: p * 9 / 10,
                reattach_immediately: false,
            });
        }
    }
    // The agent fails in the middle of the run (C04 focus): a handler raises an error that is fatal for the agent task.
    {
        let mut cr = root.sub("crash");
        if focus == "C04" && cr.chance(1, 10) && !peers.is_empty() {
            let q = cr.usize_below(peers.len());
            let n = peers[q].ops.len();
            let at = if n == 0 { 0 } else { n / 2 + cr.usize_below(n - n / 2 + 1) };
            peers[q].ops.insert(at.min(n), Op::Cmd { lane: "ctl".into(), body: ctl_recon(&super::model::Ctl::Crash) });
        }
    }
    // A remote that failed (it stopped reading, so a write to it fails and the runtime removes it) comes back under
    // the same id and starts again: nothing of its earlier session may be left.
    {
        let mut rr = root.sub("reattach");
        if matches!(focus, "C01" | "C02" | "C03" | "C04" | "C20" | "MIX") && rr.chance(1, 5) {
            let mut cands: Vec<usize> = (0..peers.len()).filter(|i| peers[*i].ops.iter().any(|o| matches!(o, Op::CloseRead))).collect();
            if cands.is_empty() && !peers.is_empty() {
                // No remote of this scenario fails: make one stop reading in the course of its script.
                let q = rr.usize_below(peers.len());
                let n = peers[q].ops.len();
                let at = if n == 0 { 0 } else { n / 3 + rr.usize_below(n - n / 3 + 1) };
                peers[q].ops.insert(at.min(n), Op::CloseRead);
                cands.push(q);
            }
            if !cands.is_empty() {
                let q = cands[rr.usize_below(cands.len())];
                let mut lanes: Vec<String> = peers[q].ops.iter().filter_map(|o| match o { Op::Link { lane } | Op::Sync { lane } => Some(lane.clone()), _ => None }).collect();
                lanes.dedup();
                if lanes.is_empty() {
                    lanes.push("val".into());
                }
                let mut ops = vec![];
                for lane in lanes.iter().take(3) {
                    match rr.below(3) {
                        0 => {
                            ops.push(Op::Link { lane: lane.clone() });
                            ops.push(Op::Sync { lane: lane.clone() });
                        }
                        1 => ops.push(Op::Sync { lane: lane.clone() }),
                        _ => ops.push(Op::Link { lane: lane.clone() }),
                    }
                }
                // A few commands (fresh values) keep the lanes moving during the second session.
                for lane in lanes.iter().take(3) {
                    for _ in 0..rr.range(0, 3) {
                        let v = g.vals(1);
                        match lane.as_str() {
                            "val" | "tval" => ops.push(Op::Cmd { lane: lane.clone(), body: format!("{v}") }),
                            "map" | "bmap" | "tmap" => ops.push(Op::Cmd { lane: lane.clone(), body: format!("@update(key:{}) {v}", g.key_off + rr.range(0, 3) as i32) }),
                            _ => {}
                        }
                    }
                }
                let id = peers.len() as u32;
                let (out_cap, in_cap) = (peers[q].out_cap, peers[q].in_cap);
                peers.push(PeerScript {
                    id,
                    out_cap,
                    in_cap,
                    chunk_seed: root.sub(&format!("chunk{id}")).next_u64(),
                    read: ReadCfg { max_chunk: 4096, stall_pm: 0, stall_max: 1, freeze_after: 0 },
                    attach_delay: 0,
                    one_way: false,
                    ops,
                    reattach_of: Some(peers[q].id),
                    attach_after_ms: 0,
                    reattach_immediately: rr.chance(1, 3),
                });
            }
        }
    }
    let ending = match focus {
        "C05" => match g.rng.below(10) {
            0 => Ending::Stop,
            1 => Ending::Timeout,
            2 | 3 => Ending::StopAt(g.rng.range(5, 600)),
            4..=6 => Ending::CrashAt(g.rng.range(5, 600)),
            _ => Ending::CrashAfterFrame(g.rng.range(1, 30)),
        },
        "C04" | "C20" => match g.rng.below(10) {
            0..=4 => Ending::Stop,
            5 | 6 => Ending::Timeout,
            _ => Ending::StopAt(g.rng.range(5, 800)),
        },
        _ => match g.rng.below(10) {
            0 => Ending::Timeout,
            _ => Ending::Stop,
        },
    };
    let store_fault = if knobs.persistent && focus == "C05" {
        match g.rng.below(10) {
            0 | 1 => StoreFaultCfg::ErrorAt(g.rng.range(0, 30)),
            2..=4 => StoreFaultCfg::PanicAt(g.rng.range(0, 30)),
            _ => StoreFaultCfg::None,
        }
    } else {
        StoreFaultCfg::None
    };
    let fake = if focus == "C04F" {
        let close_input = root.sub("close-lane-input").chance(1, 5);
        Some(super::fake::FailPlan {
            lane: if close_input { g.rng.pick(&["map", "map", "map"]).to_string() } else { g.rng.pick(&["val", "tval", "map"]).to_string() },
            after_requests: g.rng.range(0, 25) as u32,
            mode: if close_input {
                let _ = (g.rng.chance(1, 2), root.sub("torn-lane-frame").chance(1, 2));
                super::fake::FailMode::CloseInput
            } else if g.rng.chance(1, 2) { if root.sub("torn-lane-frame").chance(1, 2) { super::fake::FailMode::TornFrame } else { super::fake::FailMode::Garbage } } else { super::fake::FailMode::DropIo },
        })
    } else {
        None
    };
    // Inactivity-vote pattern (C05): the read side is kept busy with commands that produce no lane
    // events while the write side sits idle past the inactivity time-out, then a persistent lane changes.
    let mut ending = ending;
    let mut store_fault = store_fault;
    if focus == "C05" && g.rng.chance(1, 5) && !peers.is_empty() {
        let t = knobs.inactive_timeout_ms;
        // The pattern runs first and must be able to complete: no early crash, no store fault.
        peers.truncate(2);
        let mut ops = vec![Op::Link { lane: "val".into() }, Op::Link { lane: "map".into() }, Op::AwaitLinked { lane: "val".into() }];
        let hops = g.rng.range(3, 5);
        for _ in 0..hops {
            // A command for a lane that does not exist keeps the read task busy without producing
            // any lane event or coordination message (the write task stays idle).
            let v = g.vals(1);
            ops.push(Op::Cmd { lane: "nolane".into(), body: v.to_string() });
            ops.push(Op::Sleep { ms: t / 2 + 1 });
        }
        let v = g.vals(1);
        ops.push(Op::Cmd { lane: "val".into(), body: v.to_string() });
        ops.push(Op::Barrier);
        if g.rng.chance(1, 2) {
            let k = g.rng.range_i(0, 3);
            let v = g.vals(1);
            ops.push(Op::Cmd { lane: "map".into(), body: format!("@update(key:{k}) {v}") });
            ops.push(Op::Barrier);
        }
        let rest = std::mem::take(&mut peers[0].ops);
        ops.extend(rest);
        peers[0].ops = ops;
        peers[0].attach_delay = 0;
        peers[0].read.freeze_after = 0;
        ending = match g.rng.below(3) {
            0 => Ending::Stop,
            1 => Ending::CrashAfterFrame(g.rng.range(4, 12)),
            _ => Ending::Timeout,
        };
        store_fault = StoreFaultCfg::None;
    }
    // Busy read side, no remote on the write side (C04 / C17): one remote that never links is given up by the write task
    // after the prune delay (its channel to the agent stays open); it goes on sending commands - for a lane that does
    // not exist, so that no lane event and no coordination message reaches the write task - more often than the
    // inactivity period, well past the moment the write task has been idle for a whole period.
    if focus == "C04" && root.sub("busy-read-side").chance(1, 12) && !peers.is_empty() {
        let mut br = root.sub("busy-read-side-n");
        let t = *br.pick(&[5_000u64, 30_000]);
        let p = *br.pick(&[1_000u64, 5_000]);
        knobs.inactive_timeout_ms = t;
        knobs.prune_ms = p;
        peers.truncate(1);
        let mut ops = vec![];
        let hops = (p + 2 * t) / (t / 3) + br.range(1, 4);
        for _ in 0..hops {
            let v = g.vals(1);
            ops.push(Op::Cmd { lane: "nolane".into(), body: v.to_string() });
            ops.push(Op::Sleep { ms: t / 3 });
        }
        peers[0].ops = ops;
        peers[0].attach_delay = 0;
        peers[0].attach_after_ms = 0;
        peers[0].reattach_of = None;
        peers[0].read.freeze_after = 0;
        ending = Ending::Timeout;
    }
    let fake_persist = if focus == "C05F" {
        let mut fr = root.sub("fake-persist");
        let late_map_after = if fr.chance(1, 2) { Some(fr.range(0, 12) as u32) } else { None };
        if late_map_after.is_some() {
            // Somebody has to read the late lane: link requests for it at several points of every script (the first
            // ones may be answered with lane-not-found).
            for p in peers.iter_mut() {
                let n = p.ops.len();
                for frac in [2usize, 3, 4] {
                    let pos = (n * (frac - 1) / frac + 1).min(p.ops.len());
                    p.ops.insert(pos, Op::Link { lane: "map".into() });
                }
                p.ops.push(Op::Link { lane: "map".into() });
            }
        }
        Some(super::fake::PersistPlan { mirror_store: fr.chance(2, 3), late_map_after })
    } else {
        None
    };
    AgentScenario {
        fake,
        fake_persist,
        focus: focus.to_string(),
        restart: knobs.persistent && focus != "C05F" && (focus == "C05" || g.rng.chance(1, 4)),
        restart_read_fault: {
            let mut fr = root.sub("restart-read-fault");
            if focus == "C05" && knobs.persistent && fr.chance(1, 6) { Some(fr.range(0, 8)) } else { None }
        },
        knobs,
        peers,
        store_fault,
        ending,
        max_steps: 60_000,
    }
}

fn focus_lanes(mix: &Mix, rng: &mut Rng) -> Vec<&'static str> {
    let mut lanes = vec![];
    if mix.value > 0 && rng.chance(mix.value.min(8), 8) {
        lanes.push(pick_value_lane(rng));
    }
    if mix.map > 0 && rng.chance(mix.map.min(8), 8) {
        lanes.push(pick_map_lane(rng));
    }
    if mix.smap > 0 && rng.chance(mix.smap, 10) {
        lanes.push("smap");
    }
    if mix.supply > 0 && rng.chance(mix.supply.min(8), 8) {
        lanes.push("sup");
    }
    lanes
}

fn gen_op(g: &mut Gen, mix: &Mix, key_pool: i32, ops: &mut Vec<Op>, linked: &mut Vec<String>) {
    use super::model::Ctl;
    let total = mix.value + mix.map + mix.smap + mix.supply + mix.command + mix.send + mix.stores
        + mix.link_churn + mix.unknown_lane + mix.disconnect + mix.sync + 2;
    let mut x = g.rng.below(total);
    let mut take = |w: u64| -> bool {
        if x < w {
            x = u64::MAX;
            true
        } else {
            x = x.wrapping_sub(w);
            false
        }
    };
    if take(mix.value) {
        let lane = pick_value_lane(&mut g.rng);
        if g.fake || g.rng.chance(1, 2) {
            let n = *g.rng.pick(&[1i32, 1, 2, 3, 8, 30]);
            for _ in 0..n {
                let v = g.vals(1);
                ops.push(Op::Cmd { lane: lane.to_string(), body: v.to_string() });
            }
        } else {
            let n = *g.rng.pick(&[1i32, 2, 3, 10]);
            let start = g.vals(n);
            // A quarter of the handler-made sets go through a wrapped handler (Option / map / and_then / followed_by).
            let ctl = if start % 4 == 1 {
                Ctl::SetWrapped { item: val_lane_item(lane).unwrap(), start, n, shape: (start / 4) % 4 }
            } else {
                Ctl::SetVal { item: val_lane_item(lane).unwrap(), start, n }
            };
            ops.push(Op::Cmd { lane: "ctl".into(), body: ctl_recon(&ctl) });
        }
    } else if take(mix.map) {
        let lane = pick_map_lane(&mut g.rng);
        let item = map_lane_item(lane).unwrap();
        let key = g.rng.range_i(0, key_pool as i64 - 1) as i32 + g.key_off;
        match g.rng.below(20) {
            0..=6 => {
                let n = *g.rng.pick(&[1i32, 1, 2, 4, 12]);
                for _ in 0..n {
                    let v = g.vals(1);
                    let k = g.rng.range_i(0, key_pool as i64 - 1) + g.key_off as i64;
                    ops.push(Op::Cmd { lane: lane.to_string(), body: format!("@update(key:{k}) {v}") });
                }
            }
            9 => {
                // transform_entry: insert / replace / remove through the closure API.
                let remove = g.rng.chance(1, 4);
                let value = g.vals(1);
                ops.push(Op::Cmd { lane: "ctl".into(), body: ctl_recon(&Ctl::Xf { item, key, value, remove }) });
            }
            7..=8 => {
                let n = *g.rng.pick(&[1i32, 2, 5]);
                let start = g.vals(n);
                let ctl = Ctl::Upd { item, key, start, n };
                ops.push(Op::Cmd { lane: "ctl".into(), body: ctl_recon(&ctl) });
            }
            10..=11 => {
                let n = g.rng.range_i(1, key_pool as i64) as i32;
                let start = g.vals(n);
                let ctl = Ctl::UpdKeys { item, key: g.key_off, start, n };
                ops.push(Op::Cmd { lane: "ctl".into(), body: ctl_recon(&ctl) });
            }
            12..=13 => ops.push(Op::Cmd { lane: lane.to_string(), body: format!("@remove(key:{key})") }),
            14 => ops.push(Op::Cmd { lane: "ctl".into(), body: ctl_recon(&Ctl::Rem { item, key }) }),
            15 => ops.push(Op::Cmd { lane: lane.to_string(), body: "@clear".into() }),
            16 => ops.push(Op::Cmd { lane: "ctl".into(), body: ctl_recon(&Ctl::Clr { item }) }),
            17 => ops.push(Op::Cmd { lane: lane.to_string(), body: format!("@take({})", g.rng.range(0, key_pool as u64 + 1)) }),
            18 => ops.push(Op::Cmd { lane: lane.to_string(), body: format!("@drop({})", g.rng.range(0, key_pool as u64 + 1)) }),
            _ => {
                let v = g.vals(1);
                ops.push(Op::Cmd { lane: lane.to_string(), body: format!("@update(key:{key}) {v}") });
            }
        }
    } else if take(mix.smap) {
        let key = *g.rng.pick(&SMAP_KEYS);
        match g.rng.below(8) {
            0..=3 => {
                let v = g.vals(1);
                ops.push(Op::Cmd { lane: "smap".into(), body: format!("@update(key:{}) {v}", recon_str(key)) });
            }
            4 => {
                let v = g.vals(1);
                ops.push(Op::Cmd { lane: "ctl".into(), body: ctl_recon(&Ctl::SUpd { key: key.to_string(), v }) });
            }
            5 => ops.push(Op::Cmd { lane: "smap".into(), body: format!("@remove(key:{})", recon_str(key)) }),
            6 => ops.push(Op::Cmd { lane: "ctl".into(), body: ctl_recon(&Ctl::SRem { key: key.to_string() }) }),
            _ => ops.push(Op::Cmd { lane: "smap".into(), body: "@clear".into() }),
        }
    } else if take(mix.supply) {
        let n = *g.rng.pick(&[1i32, 2, 5, 20, 60, 200]);
        let start = g.vals(n);
        ops.push(Op::Cmd { lane: "ctl".into(), body: ctl_recon(&Ctl::Push { start, n }) });
    } else if take(mix.command) {
        let n = *g.rng.pick(&[1i32, 2, 5, 20]);
        for _ in 0..n {
            let v = g.vals(1);
            ops.push(Op::Cmd { lane: "cmd".into(), body: v.to_string() });
        }
    } else if take(mix.send) {
        let n = *g.rng.pick(&[1i32, 2, 4, 10, 40]);
        let start = g.vals(n);
        let target = g.rng.range_i(0, 2) as i32;
        let overwrite = g.rng.chance(1, 2);
        if g.rng.chance(1, 3) {
            // Some sends go through a commander that a handler creates long after on_start.
            let late = start % 3 == 0;
            if late {
                ops.push(Op::Cmd { lane: "ctl".into(), body: ctl_recon(&Ctl::NewCmdr { target: target % 2 }) });
            }
            let t = if late { 2 + target % 2 } else { target % 2 };
            ops.push(Op::Cmd { lane: "ctl".into(), body: ctl_recon(&Ctl::CmdrSend { target: t, queued: !overwrite, start, n }) });
            if late && n > 1 {
                // ... and the commanders of on_start must still reach their own lanes afterwards.
                let start2 = g.vals(1);
                ops.push(Op::Cmd { lane: "ctl".into(), body: ctl_recon(&Ctl::CmdrSend { target: target % 2, queued: true, start: start2, n: 1 }) });
            }
        } else {
            ops.push(Op::Cmd { lane: "ctl".into(), body: ctl_recon(&Ctl::Send { target, overwrite, start, n }) });
        }
    } else if take(mix.stores) {
        match g.rng.below(6) {
            0 | 1 => {
                let n = *g.rng.pick(&[1i32, 2, 4]);
                let start = g.vals(n);
                let item = if g.rng.chance(3, 4) { 2 } else { 3 };
                ops.push(Op::Cmd { lane: "ctl".into(), body: ctl_recon(&Ctl::SetVal { item, start, n }) });
                // The same bytes on a store and on a lane (item ids of lanes and stores are separate spaces that
                // both start at 0): the lane's value must still be persisted and published in its own right.
                if g.rng.chance(1, 3) {
                    let lane_item = if g.rng.chance(3, 4) { 0 } else { 1 };
                    let same = start + n - 1;
                    if g.rng.chance(1, 2) {
                        ops.push(Op::Cmd { lane: "ctl".into(), body: ctl_recon(&Ctl::SetVal { item: lane_item, start: same, n: 1 }) });
                    } else {
                        let lane = if lane_item == 0 { "val" } else { "tval" };
                        ops.push(Op::Cmd { lane: lane.into(), body: same.to_string() });
                    }
                }
            }
            2 | 3 => {
                let key = g.rng.range_i(0, key_pool as i64 - 1) as i32;
                let start = g.vals(1);
                ops.push(Op::Cmd { lane: "ctl".into(), body: ctl_recon(&Ctl::Upd { item: 3, key, start, n: 1 }) });
            }
            4 => {
                let key = g.rng.range_i(0, key_pool as i64 - 1) as i32;
                ops.push(Op::Cmd { lane: "ctl".into(), body: ctl_recon(&Ctl::Rem { item: 3, key }) });
            }
            _ => ops.push(Op::Cmd { lane: "ctl".into(), body: ctl_recon(&Ctl::Clr { item: 3 }) }),
        }
    } else if take(mix.link_churn) {
        let lane = if focus_is_c04f(g) { g.rng.pick(&["val", "tval", "map"]).to_string() } else if mix.map == 0 && mix.supply == 0 && mix.command == 0 { g.rng.pick(&["val", "tval"]).to_string() } else { g.rng.pick(&["val", "tval", "map", "bmap", "smap", "sup", "cmd"]).to_string() };
        match g.rng.below(4) {
            0 | 1 => {
                ops.push(Op::Link { lane: lane.clone() });
                if !linked.contains(&lane) {
                    linked.push(lane);
                }
            }
            _ => {
                if !linked.is_empty() && g.rng.chance(3, 4) {
                    let i = g.rng.usize_below(linked.len());
                    let l = linked.remove(i);
                    ops.push(Op::Unlink { lane: l });
                } else {
                    ops.push(Op::Unlink { lane });
                }
            }
        }
    } else if take(mix.unknown_lane) {
        let lane = g.rng.pick(&["nolane", "vall", ""]).to_string();
        match g.rng.below(4) {
            0 => ops.push(Op::Link { lane }),
            1 => ops.push(Op::Sync { lane }),
            2 => ops.push(Op::Unlink { lane }),
            _ => ops.push(Op::Cmd { lane, body: "1".into() }),
        }
    } else if take(mix.disconnect) {
        match g.rng.below(3) {
            0 => ops.push(Op::CloseWrite),
            1 => ops.push(Op::CloseRead),
            _ => {
                ops.push(Op::CloseRead);
                ops.push(Op::CloseWrite);
            }
        }
    } else if take(mix.sync) {
        let lane = if !linked.is_empty() && g.rng.chance(2, 3) {
            linked[g.rng.usize_below(linked.len())].clone()
        } else if focus_is_c04f(g) {
            g.rng.pick(&["val", "tval", "map"]).to_string()
        } else if mix.map == 0 && mix.supply == 0 && mix.command == 0 {
            g.rng.pick(&["val", "tval"]).to_string()
        } else {
            g.rng.pick(&["val", "tval", "map", "bmap", "tmap", "smap", "sup"]).to_string()
        };
        if !linked.contains(&lane) {
            linked.push(lane.clone());
        }
        ops.push(Op::Sync { lane });
    } else {
        match g.rng.below(3) {
            0 => ops.push(Op::Pause { polls: *g.rng.pick(&[1u32, 3, 10, 50]) }),
            1 => ops.push(Op::Barrier),
            _ => {
                if let Some(l) = linked.first() {
                    ops.push(Op::AwaitLinked { lane: l.clone() });
                } else {
                    ops.push(Op::Pause { polls: 2 });
                }
            }
        }
    }
}

/// Candidate simplifications, simplest first.
pub fn shrink(sc: &AgentScenario) -> Vec<AgentScenario> {
    let mut out = vec![];
    // Drop whole peers.
    if sc.peers.len() > 1 {
        for i in 0..sc.peers.len() {
            let mut c = sc.clone();
            c.peers.remove(i);
            out.push(c);
        }
    }
    // Drop halves / chunks / single ops of each script.
    for (pi, p) in sc.peers.iter().enumerate() {
        let n = p.ops.len();
        let mut chunk = n / 2;
        while chunk >= 1 {
            let mut start = 0;
            while start < n {
                let end = (start + chunk).min(n);
                let mut c = sc.clone();
                c.peers[pi].ops.drain(start..end);
                out.push(c);
                start += chunk;
            }
            if chunk == 1 {
                break;
            }
            chunk /= 2;
        }
    }
    // Simplify knobs / faults.
    if sc.restart {
        let mut c = sc.clone();
        c.restart = false;
        out.push(c);
    }
    if sc.store_fault != StoreFaultCfg::None {
        let mut c = sc.clone();
        c.store_fault = StoreFaultCfg::None;
        out.push(c);
    }
    if sc.ending != Ending::Stop {
        let mut c = sc.clone();
        c.ending = Ending::Stop;
        out.push(c);
    }
    if sc.knobs.policy != PolicyCfg::Lowest {
        let mut c = sc.clone();
        c.knobs.policy = PolicyCfg::Lowest;
        out.push(c);
    }
    if sc.knobs.reporting {
        let mut c = sc.clone();
        c.knobs.reporting = false;
        out.push(c);
    }
    if sc.knobs.persistent && !sc.restart {
        let mut c = sc.clone();
        c.knobs.persistent = false;
        out.push(c);
    }
    if sc.knobs.link_delay != 0 {
        let mut c = sc.clone();
        c.knobs.link_delay = 0;
        out.push(c);
    }
    for (pi, p) in sc.peers.iter().enumerate() {
        if p.read.stall_pm != 0 || p.read.freeze_after != 0 {
            let mut c = sc.clone();
            c.peers[pi].read.stall_pm = 0;
            c.peers[pi].read.freeze_after = 0;
            out.push(c);
        }
        if p.attach_delay != 0 {
            let mut c = sc.clone();
            c.peers[pi].attach_delay = 0;
            out.push(c);
        }
        if p.read.max_chunk != 4096 {
            let mut c = sc.clone();
            c.peers[pi].read.max_chunk = 4096;
            out.push(c);
        }
        if p.out_cap != 4096 {
            let mut c = sc.clone();
            c.peers[pi].out_cap = 4096;
            out.push(c);
        }
        if p.in_cap != 4096 {
            let mut c = sc.clone();
            c.peers[pi].in_cap = 4096;
            out.push(c);
        }
        // Shrink burst sizes inside control commands is left to op removal.
    }
    if sc.knobs.lane_out_buf != 4096 {
        let mut c = sc.clone();
        c.knobs.lane_out_buf = 4096;
        out.push(c);
    }
    if sc.knobs.lane_in_buf != 4096 {
        let mut c = sc.clone();
        c.knobs.lane_in_buf = 4096;
        out.push(c);
    }
    if sc.knobs.budget_agent != 64 {
        let mut c = sc.clone();
        c.knobs.budget_agent = 64;
        out.push(c);
    }
    if sc.knobs.budget_peer != 64 {
        let mut c = sc.clone();
        c.knobs.budget_peer = 64;
        out.push(c);
    }
    out
}


/// Focus DYN: peer 0 is the only writer (commands to the dynamically opened lanes `val` and `map`), the other peers
/// link, sync and read at their own pace. Every reader links before it syncs.
fn generate_dyn(root: Rng, mut g: Gen, mut knobs: Knobs) -> AgentScenario {
    knobs.persistent = false;
    knobs.reporting = false;
    let mut r = root.sub("dyn");
    let key_pool = r.range(2, 7) as i32;
    let mut peers = vec![];
    // The writer: waits until its links are up (the lanes are opened in on_start), then writes.
    let mut ops = vec![
        Op::Link { lane: "val".into() },
        Op::Link { lane: "map".into() },
        Op::AwaitLinked { lane: "val".into() },
        Op::AwaitLinked { lane: "map".into() },
    ];
    for _ in 0..r.range(3, 40) {
        let k = r.range_i(0, key_pool as i64 - 1) as i32 + g.key_off;
        match r.below(20) {
            0..=3 => {
                let v = g.vals(1);
                ops.push(Op::Cmd { lane: "val".into(), body: v.to_string() });
            }
            4..=11 => {
                let v = g.vals(1);
                ops.push(Op::Cmd { lane: "map".into(), body: format!("@update(key:{k}) {v}") });
            }
            12 | 13 => ops.push(Op::Cmd { lane: "map".into(), body: format!("@remove(key:{k})") }),
            14 => ops.push(Op::Cmd { lane: "map".into(), body: "@clear".into() }),
            15 | 16 => ops.push(Op::Cmd { lane: "map".into(), body: format!("@take({})", r.range(0, key_pool as u64 + 1)) }),
            17 | 18 => ops.push(Op::Cmd { lane: "map".into(), body: format!("@drop({})", r.range(0, key_pool as u64 + 1)) }),
            _ => ops.push(Op::Pause { polls: *r.pick(&[1u32, 5, 20]) }),
        }
    }
    peers.push(PeerScript {
        id: 0,
        out_cap: *r.pick(&[16u32, 64, 256, 4096]),
        in_cap: *r.pick(&[16u32, 64, 4096]),
        chunk_seed: root.sub("chunk0").next_u64(),
        read: gen_read(&mut r, false),
        attach_delay: 0,
        one_way: false,
        ops,
        reattach_of: None,
            attach_after_ms: 0,
            reattach_immediately: false,
    });
    for id in 1..=r.range(0, 2) as u32 {
        let mut ops = vec![Op::Pause { polls: *r.pick(&[0u32, 10, 40, 120]) }];
        for lane in ["val", "map"] {
            if r.chance(3, 4) {
                ops.push(Op::Link { lane: lane.into() });
                ops.push(Op::AwaitLinked { lane: lane.into() });
                if r.chance(3, 4) {
                    ops.push(Op::Sync { lane: lane.into() });
                }
            }
        }
        peers.push(PeerScript {
            id,
            out_cap: *r.pick(&[8u32, 16, 64, 256, 4096]),
            in_cap: 4096,
            chunk_seed: root.sub(&format!("chunk{id}")).next_u64(),
            read: gen_read(&mut r, true),
            attach_delay: *r.pick(&[0u32, 5, 30]),
            one_way: false,
            ops,
            reattach_of: None,
            attach_after_ms: 0,
            reattach_immediately: false,
        });
    }
    AgentScenario {
        focus: "DYN".into(),
        knobs,
        peers,
        store_fault: StoreFaultCfg::None,
        ending: Ending::Stop,
        restart: false,
        restart_read_fault: None,
        max_steps: 60_000,
        fake: None,
        fake_persist: None,
    }
}
