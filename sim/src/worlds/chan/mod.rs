//! W-CHAN: operation-level simulator for the SPSC byte channel (property C12).
//!
//! The real `swimos_byte_channel` reader/writer pair is driven poll by poll (`AsyncRead::poll_read`,
//! `AsyncWrite::poll_write|poll_flush|poll_shutdown`, drops) with counting wakers (three per side; the wake-up is owed to the waker of the side's latest poll).
//! Every poll result is compared against a reference bounded FIFO and the wake-up obligations of the
//! property are checked after every operation.
//!
//! Every access to the shared `Conduit` happens under one `parking_lot::Mutex`, so each operation of
//! the real channel is atomic and a multi-threaded execution is an interleaving of exactly the
//! operations scripted here (the coop budget is thread-local and never shared between threads).
//!
//! One *run* of this world executes a batch of independent sequences (the runner spawns a fresh OS
//! thread per run, which would otherwise dominate the cost of a 40-operation sequence).
//!
//! Scenario forms (both accepted by `execute`):
//!   `{"seed": <u64>, "batch": 256}`                      sequences are `gen_seq(seed, i)` for i in 0..batch
//!   `{"seqs": [{"cap": 3, "budget": null, "ops": [..]}]}`  explicit sequences (minimised replays)
//!
//! Rules (property "C12"; the signature is `rule:detail`, no values):
//!   C12.fifo                     bytes read are exactly the next bytes accepted (`mismatch`, `phantom`)
//!   C12.capacity                 accepted - read <= capacity (`over`); an open channel with free space
//!                                accepts exactly min(len, free) (`short_write`, `zero_write`,
//!                                `write_error_open`, `bad_count`)
//!   C12.eof                      end-of-stream only when the writer is shut down / dropped and everything
//!                                was delivered (`premature`), nothing after it (`data_after_eof`), reads never
//!                                fail (`read_error`)
//!   C12.write_after_reader_drop  writes after the reader was dropped fail (`accepted`, `pending`)
//!   C12.wakeup                   a side whose last poll would-block is woken when the other side makes
//!                                progress possible or closes (`reader`, `writer`)
//!   C12.spurious_block           a Pending without self-wake although the model can progress
//!                                (`reader_data`, `reader_closed`, `writer_space`, `writer_closed`,
//!                                `writer_empty_write`, `flush`, `shutdown`)
//!   C12.panic                    the channel panicked on a legal poll sequence
//!
//! What the property does not state is not demanded: short reads are accepted, an error from a write
//! after the writer's own shutdown is accepted (as is success), flush / shutdown results are not
//! judged (only that they do not block without a wake-up), empty reads and empty writes may return
//! either way where the text is silent.

pub mod model;
pub mod scenario;

use std::future::{poll_fn, Future};
use std::num::NonZeroUsize;
use std::panic::{catch_unwind, AssertUnwindSafe};
use std::pin::Pin;
use std::sync::atomic::{AtomicU64, Ordering};
use std::sync::Arc;
use std::task::{Context, Poll, Wake, Waker};

use serde_json::{json, Value as Json};
use swimos_utilities::byte_channel::{byte_channel, BudgetedFutureExt};

#[allow(dead_code, unexpected_cfgs)]
#[path = "/repo/swimos_utilities/swimos_byte_channel/src/channel/mod.rs"]
mod nocoop_channel;
use tokio::io::{AsyncRead, AsyncWrite, ReadBuf};

use crate::core::log::EventLog;
use crate::core::{Outcome, Tier, Violation, World};

use model::{Model, DEFAULT_START_BUDGET};
use scenario::{ChanScenario, Op, Seq};

pub const PROPERTY: &str = "C12";
/// Budget used in "large budget" mode: reset before every poll, can never run out.
const LARGE_BUDGET: usize = 1 << 20;
/// Sequences per run. The runner spawns (and joins) a fresh OS thread per run; measured on a loaded
/// 16-core box the same 19.2M sequences take ~50 s as 300_000 runs x 64 and ~28 s as 75_000 x 256
/// (sys time 58 s vs 11 s), so the batch is large and the run count in checks.rs correspondingly small.
pub const DEFAULT_BATCH: u64 = 256;

pub struct ChanWorld;

#[derive(Default)]
struct CountWaker(AtomicU64);

impl CountWaker {
    fn get(&self) -> u64 {
        self.0.load(Ordering::SeqCst)
    }
}

impl Wake for CountWaker {
    fn wake(self: Arc<Self>) {
        self.0.fetch_add(1, Ordering::SeqCst);
    }

    fn wake_by_ref(self: &Arc<Self>) {
        self.0.fetch_add(1, Ordering::SeqCst);
    }
}

/// Polls `f` once. With `reset = Some(b)` the poll goes through the product's own `RunWithBudget`
/// wrapper (which sets the thread-local budget to `b` first); with `None` the thread-local budget
/// left by the previous polls of this sequence stays in force.
fn poll_once<T>(
    reset: Option<NonZeroUsize>,
    cx: &mut Context<'_>,
    mut f: impl FnMut(&mut Context<'_>) -> Poll<T>,
) -> Poll<T> {
    match reset {
        Some(b) => {
            let fut = poll_fn(|cx| f(cx)).with_budget(b);
            let mut fut = std::pin::pin!(fut);
            fut.as_mut().poll(cx)
        }
        None => f(cx),
    }
}

#[derive(Default)]
struct Ctr {
    task_probes: u64,
    task_polls: u64,
    seqs: u64,
    seqs_small_budget: u64,
    seqs_nontrivial: u64,
    ops: u64,
    polls: u64,
    skipped_ops: u64,
    pendings_reader: u64,
    pendings_writer: u64,
    budget_yields: u64,
    unexpected_yields: u64,
    wakeups_checked: u64,
    polls_with_other_waker: u64,
    vectored_writes: u64,
    wakeups_reader: u64,
    wakeups_writer: u64,
    wakeups_on_close: u64,
    full_hits: u64,
    empty_hits: u64,
    eof_seen: u64,
    write_errors: u64,
    bytes_written: u64,
    bytes_read: u64,
    partial_writes: u64,
    partial_reads: u64,
    drops_reader: u64,
    drops_writer: u64,
    shutdowns: u64,
    drained_after_close: u64,
}

/// History recorder. The hash is taken over a compact, injective encoding of every record (tag
/// byte + numbers), identical whether or not the log is kept; the human-readable lines are rendered
/// only when the log is kept (formatting ~400M lines per quick check would dominate the run time).
///
/// Encoding of a number `v`: one byte `0x21 + v` if `v < 90`, otherwise `' ' <decimal> ' '` (a space
/// never occurs otherwise, so the encoding is prefix-free). Byte strings are length-prefixed.
struct Hist {
    log: EventLog,
    keep: bool,
    lines: Vec<String>,
    cb: Vec<u8>,
}

impl Hist {
    fn new(keep: bool) -> Hist {
        Hist { log: EventLog::new(false), keep, lines: vec![], cb: Vec::with_capacity(64) }
    }

    #[inline(always)]
    fn start(&mut self, tag: u8) {
        self.cb.clear();
        self.cb.push(tag);
    }

    #[inline(always)]
    fn tag(&mut self, tag: u8) {
        self.cb.push(tag);
    }

    #[inline(always)]
    fn put(&mut self, v: u64) {
        if v < 90 {
            self.cb.push(0x21u8.wrapping_add(v as u8));
        } else {
            self.put_big(v);
        }
    }

    #[inline(never)]
    fn put_big(&mut self, v: u64) {
        {
            self.cb.push(b' ');
            let mut tmp = [0u8; 20];
            let mut i = tmp.len();
            let mut v = v;
            while v > 0 {
                i -= 1;
                tmp[i] = b'0' + (v % 10) as u8;
                v /= 10;
            }
            self.cb.extend_from_slice(&tmp[i..]);
            self.cb.push(b' ');
        }
    }

    fn put_bytes(&mut self, bytes: &[u8]) {
        self.put(bytes.len() as u64);
        for b in bytes {
            self.put(*b as u64);
        }
    }

    fn put_text(&mut self, text: &str) {
        self.put(text.len() as u64);
        self.cb.extend(text.bytes().map(|b| if b.is_ascii() { b } else { b'?' }));
    }

    /// Hashes the compact record and, if the log is kept, stores the human-readable line.
    fn commit(&mut self, step: u64, kind: &str, human: impl FnOnce() -> String) {
        self.log.rec(step, kind, std::str::from_utf8(&self.cb).unwrap_or("<non-ascii>"));
        if self.keep {
            // Same layout as EventLog's own lines.
            self.lines.push(format!("{:>6} {:<10} {}", step, kind, human()));
        }
    }
}

fn fmt_op(op: &Op) -> String {
    match op {
        Op::Read { n } => format!("Read({n})"),
        Op::Write { bytes } => format!("Write{bytes:?}"),
        Op::Flush => "Flush".to_string(),
        Op::Shutdown => "Shutdown".to_string(),
        Op::DropReader => "DropReader".to_string(),
        Op::DropWriter => "DropWriter".to_string(),
    }
}

fn fmt_state(m: &Model, rw: u64, ww: u64) -> String {
    format!("buf={}/{} rw={} ww={}", m.buf.len(), m.cap, rw, ww)
}

/// One task owning both halves of a channel, polled through `RunWithBudget` until it finishes. Every poll may use up
/// the budget and ask to be polled again (the wake-up is then already there); a Pending without a wake-up is a lost
/// wake-up, and a task that is still not done after far more polls than it has operations is stalled.
fn run_task_probe(pi: usize, probe: &scenario::TaskProbe, h: &mut Hist, step: &mut u64, c: &mut Ctr) -> Option<Violation> {
    use tokio::io::{AsyncReadExt, AsyncWriteExt};
    let budget = NonZeroUsize::new(probe.budget.max(1)).unwrap();
    let cap = NonZeroUsize::new(probe.cap.max(1)).unwrap();
    let (mut tx, mut rx) = byte_channel(cap);
    let total: usize = probe.chunks.iter().sum();
    let chunks = probe.chunks.clone();
    let read = probe.read.max(1);
    let task = async move {
        let writer = async move {
            let mut next = 0u8;
            for n in chunks {
                let data: Vec<u8> = (0..n).map(|_| { next = next.wrapping_add(1); next }).collect();
                if tx.write_all(&data).await.is_err() {
                    return false;
                }
            }
            tx.shutdown().await.is_ok()
        };
        let reader = async move {
            let mut got = vec![];
            let mut buf = vec![0u8; read];
            loop {
                match rx.read(&mut buf).await {
                    Ok(0) => break,
                    Ok(k) => got.extend_from_slice(&buf[..k]),
                    Err(_) => return None,
                }
            }
            Some(got)
        };
        futures::future::join(writer, reader).await
    };
    let mut task = std::pin::pin!(task.with_budget(budget));
    let flag = Arc::new(CountWaker::default());
    let waker = Waker::from(flag.clone());
    let mut cx = Context::from_waker(&waker);
    // Operations the task can possibly need: one write and one read per byte, plus shutdown and end of stream.
    let limit = 8 * (total as u64 + 4) + 64;
    let mut polls = 0u64;
    let result = loop {
        polls += 1;
        *step += 1;
        let before = flag.get();
        match task.as_mut().poll(&mut cx) {
            Poll::Ready(r) => break Some(r),
            Poll::Pending => {
                if flag.get() == before {
                    h.start(b'T');
                    h.put(pi as u64);
                    h.commit(*step, "task", || format!("t{pi} pending without a wake-up after {polls} polls"));
                    return Some(viol("task", "lost_wakeup", format!("task probe {pi} (budget {} cap {} chunks {:?} read {}): Pending at poll {polls} without a wake-up: the task would never run again", probe.budget, probe.cap, probe.chunks, probe.read)));
                }
                if polls >= limit {
                    break None;
                }
            }
        }
    };
    h.start(b'T');
    h.put(pi as u64);
    h.put(polls);
    h.commit(*step, "task", || format!("t{pi} budget={} cap={} bytes={total} polls={polls} done={}", probe.budget, probe.cap, result.is_some()));
    c.task_polls += polls;
    match result {
        None => Some(viol("live", "budgeted_task_stalls", format!("task probe {pi} (budget {} cap {} chunks {:?} read {}): the task woke itself and was polled {polls} times but never finished: no byte written became readable and the reader never saw the end of the stream", probe.budget, probe.cap, probe.chunks, probe.read))),
        Some((ok, got)) => {
            let want: Vec<u8> = (1..=total).map(|i| i as u8).collect();
            if !ok || got.as_ref() != Some(&want) {
                Some(viol("task", "bytes", format!("task probe {pi} (budget {} cap {} chunks {:?} read {}): wrote {want:?} (ok={ok}), read {got:?}", probe.budget, probe.cap, probe.chunks, probe.read)))
            } else {
                None
            }
        }
    }
}

fn viol(rule: &str, sig: &str, detail: String) -> Violation {
    Violation::new(PROPERTY, &format!("C12.{rule}"), sig, detail)
}

enum Side {
    Reader,
    Writer,
}

/// What a poll of one side produced, before interpretation.
enum Raw {
    Pending,
    /// `k` bytes were filled; they are in the scratch buffer.
    ReadOk(usize),
    WriteOk(usize),
    UnitOk,
    Err(std::io::ErrorKind),
}

struct SeqRun<'a> {
    si: usize,
    seq: &'a Seq,
    m: Model,
    /// The reader's / writer's waker count recorded when its last poll returned a would-block
    /// Pending that has not been resolved yet.
    reader_wait: Option<(usize, u64)>,
    writer_wait: Option<(usize, u64)>,
    rws: [Arc<CountWaker>; 3],
    wws: [Arc<CountWaker>; 3],
    resolved: u64,
}

impl<'a> SeqRun<'a> {
    fn ctx(&self, oi: usize, op: &Op, res: &str) -> String {
        format!(
            "seq {} op {} {:?} -> {} | model: cap={} buffered={:?} accepted={} read={} shutdown={} writer_dropped={} reader_dropped={} | wakes reader={} writer={}",
            self.si,
            oi,
            op,
            res,
            self.m.cap,
            self.m.buf,
            self.m.accepted,
            self.m.read,
            self.m.shutdown,
            self.m.writer_dropped,
            self.m.reader_dropped,
            self.rws.iter().map(|w| w.get()).sum::<u64>(),
            self.wws.iter().map(|w| w.get()).sum::<u64>()
        )
    }

    /// Lost wake-up rule, evaluated after an operation of the *writer* side (or its drop): if the
    /// reader is waiting and the model says a read could now complete, its waker must have fired
    /// since the Pending.
    fn check_reader_woken(&mut self, c: &mut Ctr, oi: usize, op: &Op) -> Option<Violation> {
        let (widx, since) = self.reader_wait?;
        if self.m.reader_dropped || !self.m.reader_can_progress() {
            return None;
        }
        c.wakeups_checked += 1;
        self.reader_wait = None;
        if self.rws[widx].get() > since {
            c.wakeups_reader += 1;
            if self.m.buf.is_empty() {
                c.wakeups_on_close += 1;
            }
            self.resolved += 1;
            None
        } else {
            Some(viol(
                "wakeup",
                "reader",
                format!("reader was waiting on an empty channel, the writer side made progress possible, the waker of the reader's latest poll was not invoked: {}", self.ctx(oi, op, "done")),
            ))
        }
    }

    /// Same for a waiting writer after an operation of the *reader* side (or its drop).
    fn check_writer_woken(&mut self, c: &mut Ctr, oi: usize, op: &Op) -> Option<Violation> {
        let (widx, since) = self.writer_wait?;
        if self.m.writer_dropped || !self.m.writer_can_progress() {
            return None;
        }
        c.wakeups_checked += 1;
        self.writer_wait = None;
        if self.wws[widx].get() > since {
            c.wakeups_writer += 1;
            if self.m.reader_dropped {
                c.wakeups_on_close += 1;
            }
            self.resolved += 1;
            None
        } else {
            Some(viol(
                "wakeup",
                "writer",
                format!("writer was waiting on a full channel, the reader side made progress possible, the waker of the writer's latest poll was not invoked: {}", self.ctx(oi, op, "done")),
            ))
        }
    }
}

/// Executes one sequence against a fresh real channel. Returns the first violation (the sequence
/// stops there, the model has diverged) or a harness error.
fn run_seq(si: usize, seq: &Seq, h: &mut Hist, step: &mut u64, c: &mut Ctr) -> Result<Option<Violation>, String> {
    if seq.cap == 0 || seq.cap > 4096 {
        return Err(format!("seq {si}: capacity {} out of range", seq.cap));
    }
    if seq.nocoop {
        // The build of the channel without the `coop` feature (the same source file compiled into the harness, where
        // that feature does not exist).
        let (w, r) = nocoop_channel::byte_channel(NonZeroUsize::new(seq.cap).unwrap());
        run_seq_on(w, r, si, seq, h, step, c)
    } else {
        let (w, r) = byte_channel(NonZeroUsize::new(seq.cap).unwrap());
        run_seq_on(w, r, si, seq, h, step, c)
    }
}

fn run_seq_on<W: tokio::io::AsyncWrite + Unpin, R: tokio::io::AsyncRead + Unpin>(
    w: W,
    r: R,
    si: usize,
    seq: &Seq,
    h: &mut Hist,
    step: &mut u64,
    c: &mut Ctr,
) -> Result<Option<Violation>, String> {
    if seq.cap == 0 || seq.cap > 4096 {
        return Err(format!("seq {si}: capacity {} out of range", seq.cap));
    }
    if let Some(b) = seq.budget {
        // A budget of 1 yields on every poll (livelock by construction), 0 is not representable.
        if b < 2 {
            return Err(format!("seq {si}: coop budget {b} < 2"));
        }
    }
    let small_budget = seq.budget.map(|b| NonZeroUsize::new(b).unwrap());
    let large = NonZeroUsize::new(LARGE_BUDGET).unwrap();

    let mut writer = Some(w);
    let mut reader = Some(r);
    let rws: [Arc<CountWaker>; 3] = [Arc::new(CountWaker::default()), Arc::new(CountWaker::default()), Arc::new(CountWaker::default())];
    let wws: [Arc<CountWaker>; 3] = [Arc::new(CountWaker::default()), Arc::new(CountWaker::default()), Arc::new(CountWaker::default())];
    let r_wakers: Vec<Waker> = rws.iter().map(|w| Waker::from(w.clone())).collect();
    let w_wakers: Vec<Waker> = wws.iter().map(|w| Waker::from(w.clone())).collect();

    let mut run = SeqRun {
        si,
        seq,
        m: Model::new(seq.cap),
        reader_wait: None,
        writer_wait: None,
        rws: rws.clone(),
        wws: wws.clone(),
        resolved: 0,
    };
    c.seqs += 1;
    if seq.budget.is_some() {
        c.seqs_small_budget += 1;
    }
    h.start(b'b');
    h.put(si as u64);
    h.put(seq.cap as u64);
    h.put(seq.budget.unwrap_or(0) as u64);
    h.put(seq.ops.len() as u64);
    h.commit(*step, "begin", || format!("seq={} cap={} budget={} ops={}", si, seq.cap, seq.budget.map(|b| b.to_string()).unwrap_or_else(|| "large".into()), seq.ops.len()));

    // Small-budget mode: the budget is (re)set through RunWithBudget at the first poll and at the
    // first poll after any Pending (the simulated task went back to its executor and its wrapper
    // resets the budget at the next task poll); between those points it keeps counting down across
    // both halves (they share the thread-local, as two channel ends used by one task do).
    let mut reset_due = true;
    // Mirror of the product's thread-local budget (only used to tell expected yields from
    // unexpected ones in the counters and to annotate the log).
    let mut mb: Option<usize> = None;

    let mut result: Option<Violation> = None;
    // Destination of poll_read (the filled prefix is what was read).
    let mut scratch: Vec<u8> = Vec::with_capacity(16);

    for (oi, op) in seq.ops.iter().enumerate() {
        *step += 1;
        c.ops += 1;
        let side = match op {
            Op::Read { .. } | Op::DropReader => Side::Reader,
            _ => Side::Writer,
        };
        let alive = match side {
            Side::Reader => reader.is_some(),
            Side::Writer => writer.is_some(),
        };
        if !alive {
            c.skipped_ops += 1;
            h.start(b'x');
            h.put(si as u64);
            h.put(oi as u64);
            h.commit(*step, "op", || format!("s{} {} -> skipped (side already dropped)", si, fmt_op(op)));
            continue;
        }
        // The waker identity of this poll.
        let widx = (seq.wakers.get(oi).copied().unwrap_or(0) % 3) as usize;
        if widx != 0 {
            c.polls_with_other_waker += 1;
        }
        let (rw, ww) = (&rws[widx], &wws[widx]);
        let (r_waker, w_waker) = (&r_wakers[widx], &w_wakers[widx]);
        let r0 = rw.get();
        let w0 = ww.get();

        // ---- drops (not polls) -------------------------------------------------------------
        match op {
            Op::DropReader => {
                drop(reader.take());
                c.drops_reader += 1;
                run.m.reader_dropped = true;
                run.reader_wait = None;
                h.start(b'r');
                h.put(si as u64);
                h.put(rw.get());
                h.put(ww.get());
                h.commit(*step, "op", || format!("s{} DropReader | {}", si, fmt_state(&run.m, rw.get(), ww.get())));
                if let Some(v) = run.check_writer_woken(c, oi, op) {
                    result = Some(v);
                    break;
                }
                continue;
            }
            Op::DropWriter => {
                drop(writer.take());
                c.drops_writer += 1;
                run.m.writer_dropped = true;
                run.writer_wait = None;
                h.start(b'w');
                h.put(si as u64);
                h.put(rw.get());
                h.put(ww.get());
                h.commit(*step, "op", || format!("s{} DropWriter | {}", si, fmt_state(&run.m, rw.get(), ww.get())));
                if let Some(v) = run.check_reader_woken(c, oi, op) {
                    result = Some(v);
                    break;
                }
                continue;
            }
            _ => {}
        }

        // ---- the poll -------------------------------------------------------------------------
        c.polls += 1;
        let reset = match small_budget {
            None => Some(large),
            Some(b) => {
                if reset_due {
                    Some(b)
                } else {
                    None
                }
            }
        };
        if let Some(b) = reset {
            mb = Some(b.get());
        }
        // Mirror of coop::consume_budget.
        let predicted_yield = match mb {
            Some(b) => {
                let b = b.saturating_sub(1);
                if b == 0 {
                    mb = None;
                    true
                } else {
                    mb = Some(b);
                    false
                }
            }
            None => {
                mb = Some(DEFAULT_START_BUDGET);
                false
            }
        };

        let raw = match op {
            Op::Read { n } => {
                scratch.clear();
                scratch.resize(*n, 0);
                let mut rb = ReadBuf::new(&mut scratch);
                let rd = reader.as_mut().unwrap();
                let mut cx = Context::from_waker(r_waker);
                match poll_once(reset, &mut cx, |cx| Pin::new(&mut *rd).poll_read(cx, &mut rb)) {
                    Poll::Pending => Raw::Pending,
                    Poll::Ready(Ok(())) => Raw::ReadOk(rb.filled().len()),
                    Poll::Ready(Err(e)) => Raw::Err(e.kind()),
                }
            }
            Op::Write { bytes } => {
                let wr = writer.as_mut().unwrap();
                let mut cx = Context::from_waker(w_waker);
                let vz = seq.vectored.get(oi).copied().unwrap_or(0) as usize;
                let slices: Vec<std::io::IoSlice<'_>> = if vz > 0 && bytes.len() > vz { bytes.chunks(vz).map(std::io::IoSlice::new).collect() } else { vec![] };
                if !slices.is_empty() {
                    c.vectored_writes += 1;
                }
                match poll_once(reset, &mut cx, |cx| if slices.is_empty() { Pin::new(&mut *wr).poll_write(cx, bytes) } else { Pin::new(&mut *wr).poll_write_vectored(cx, &slices) }) {
                    Poll::Pending => Raw::Pending,
                    Poll::Ready(Ok(k)) => Raw::WriteOk(k),
                    Poll::Ready(Err(e)) => Raw::Err(e.kind()),
                }
            }
            Op::Flush => {
                let wr = writer.as_mut().unwrap();
                let mut cx = Context::from_waker(w_waker);
                match poll_once(reset, &mut cx, |cx| Pin::new(&mut *wr).poll_flush(cx)) {
                    Poll::Pending => Raw::Pending,
                    Poll::Ready(Ok(())) => Raw::UnitOk,
                    Poll::Ready(Err(e)) => Raw::Err(e.kind()),
                }
            }
            Op::Shutdown => {
                let wr = writer.as_mut().unwrap();
                let mut cx = Context::from_waker(w_waker);
                match poll_once(reset, &mut cx, |cx| Pin::new(&mut *wr).poll_shutdown(cx)) {
                    Poll::Pending => Raw::Pending,
                    Poll::Ready(Ok(())) => Raw::UnitOk,
                    Poll::Ready(Err(e)) => Raw::Err(e.kind()),
                }
            }
            Op::DropReader | Op::DropWriter => unreachable!(),
        };

        let self_woken = match side {
            Side::Reader => rw.get() > r0,
            Side::Writer => ww.get() > w0,
        };
        let is_pending = matches!(raw, Raw::Pending);
        // A Pending during which the polled side's own waker fired is a yield: the side is
        // scheduled again, nothing is owed to it, and nothing may have changed in the channel (any
        // change would show up as a FIFO / capacity discrepancy in later operations).
        let is_yield = is_pending && self_woken;
        if is_yield {
            c.budget_yields += 1;
            if !predicted_yield {
                c.unexpected_yields += 1;
            }
        }
        if is_pending && !is_yield && matches!(op, Op::Read { .. } | Op::Write { .. }) {
            // Mirror of coop::track_progress.
            mb = mb.map(|b| b.saturating_add(1));
        }
        reset_due = is_pending;

        // Result text (violation details and the kept log only).
        let res_txt = || match &raw {
            Raw::Pending if is_yield => "Pending(yield)".to_string(),
            Raw::Pending => "Pending(block)".to_string(),
            Raw::ReadOk(k) => format!("Ready({:?})", &scratch[..*k]),
            Raw::WriteOk(k) => format!("Ready(Ok({k}))"),
            Raw::UnitOk => "Ready(Ok)".to_string(),
            Raw::Err(k) => format!("Ready(Err({:?}))", k),
        };

        // ---- interpretation against the model -----------------------------------------------
        let mut v: Option<Violation> = None;
        match (op, &raw) {
            // ............................................................ reader
            (Op::Read { .. }, Raw::Pending) if is_yield => {
                run.reader_wait = None;
            }
            (Op::Read { n }, Raw::Pending) => {
                c.pendings_reader += 1;
                if !run.m.buf.is_empty() && *n > 0 {
                    v = Some(viol("spurious_block", "reader_data", format!("poll_read returned Pending (no self-wake) although data is buffered: {}", run.ctx(oi, op, &res_txt()))));
                } else if run.m.buf.is_empty() && run.m.writer_closed() {
                    v = Some(viol("spurious_block", "reader_closed", format!("poll_read returned Pending (no self-wake) although the writer side is closed and the buffer is empty (end-of-stream expected): {}", run.ctx(oi, op, &res_txt()))));
                } else if !run.m.buf.is_empty() {
                    // n == 0 with data buffered: nothing to wait for either; the real channel
                    // returns Ready. The property does not speak about empty reads: not flagged,
                    // but no wake-up obligation is recorded for it.
                    run.reader_wait = None;
                } else {
                    c.empty_hits += 1;
                    run.reader_wait = Some((widx, rw.get()));
                }
            }
            (Op::Read { n }, Raw::ReadOk(k)) => {
                run.reader_wait = None;
                let k = *k;
                let bytes = &scratch[..k];
                if k == 0 {
                    if *n == 0 {
                        // Empty read: says nothing.
                    } else if run.m.buf.is_empty() && run.m.writer_closed() {
                        c.eof_seen += 1;
                        if !run.m.eof_seen {
                            run.m.eof_seen = true;
                            if run.m.read == run.m.accepted {
                                c.drained_after_close += 1;
                            }
                        }
                    } else {
                        v = Some(viol("eof", "premature", format!("poll_read returned end-of-stream (0 bytes into a {}-byte buffer) while {}: {}", n, if run.m.buf.is_empty() { "the writer is still open" } else { "bytes are still buffered" }, run.ctx(oi, op, &res_txt()))));
                    }
                } else if run.m.eof_seen {
                    v = Some(viol("eof", "data_after_eof", format!("poll_read returned bytes after end-of-stream had been reported: {}", run.ctx(oi, op, &res_txt()))));
                } else if k > run.m.buf.len() {
                    v = Some(viol("fifo", "phantom", format!("poll_read returned {} bytes but only {} were accepted and unread: {}", k, run.m.buf.len(), run.ctx(oi, op, &res_txt()))));
                } else if !run.m.buf.iter().take(k).copied().eq(bytes.iter().copied()) {
                    v = Some(viol("fifo", "mismatch", format!("bytes read are not the next bytes written: {}", run.ctx(oi, op, &res_txt()))));
                } else {
                    if k < (*n).min(run.m.buf.len()) {
                        c.partial_reads += 1;
                    }
                    run.m.consume(k);
                    c.bytes_read += k as u64;
                }
            }
            (Op::Read { .. }, Raw::Err(_)) => {
                run.reader_wait = None;
                v = Some(viol("eof", "read_error", format!("poll_read returned an error (the reader must get the remaining bytes and then end-of-stream): {}", run.ctx(oi, op, &res_txt()))));
            }
            // ............................................................ writer: write
            (Op::Write { .. }, Raw::Pending) if is_yield => {
                run.writer_wait = None;
            }
            (Op::Write { bytes }, Raw::Pending) => {
                c.pendings_writer += 1;
                if run.m.reader_dropped {
                    v = Some(viol("write_after_reader_drop", "pending", format!("poll_write returned Pending (no self-wake) after the reader was dropped: {}", run.ctx(oi, op, &res_txt()))));
                } else if run.m.shutdown {
                    v = Some(viol("spurious_block", "writer_closed", format!("poll_write returned Pending (no self-wake) after shutdown: {}", run.ctx(oi, op, &res_txt()))));
                } else if run.m.free() > 0 {
                    v = Some(viol("spurious_block", if bytes.is_empty() { "writer_empty_write" } else { "writer_space" }, format!("poll_write returned Pending (no self-wake) although {} bytes are free: {}", run.m.free(), run.ctx(oi, op, &res_txt()))));
                } else {
                    // Full and open (an empty write may legitimately wait as well; the real
                    // channel returns Ok(0) for it).
                    c.full_hits += 1;
                    run.writer_wait = Some((widx, ww.get()));
                }
            }
            (Op::Write { bytes }, Raw::WriteOk(k)) => {
                run.writer_wait = None;
                let k = *k;
                if run.m.reader_dropped {
                    // Property text: "after the reader is dropped writes fail". An empty write that
                    // reports Ok(0) transfers nothing and is not counted as a successful write
                    // (the real channel fails it too).
                    if !(bytes.is_empty() && k == 0) {
                        v = Some(viol("write_after_reader_drop", "accepted", format!("poll_write succeeded after the reader was dropped: {}", run.ctx(oi, op, &res_txt()))));
                    }
                } else if k > bytes.len() {
                    v = Some(viol("capacity", "bad_count", format!("poll_write reported more bytes than offered: {}", run.ctx(oi, op, &res_txt()))));
                } else if bytes.is_empty() {
                    // Ok(0) for an empty write, whatever the state.
                } else {
                    let free = run.m.free();
                    if k > free {
                        v = Some(viol("capacity", "over", format!("poll_write accepted {} bytes with only {} free (capacity {}): {}", k, free, run.m.cap, run.ctx(oi, op, &res_txt()))));
                    } else if k == 0 {
                        v = Some(viol("capacity", "zero_write", format!("poll_write returned Ok(0) for a non-empty buffer on an open channel ({} free): {}", free, run.ctx(oi, op, &res_txt()))));
                    } else if k < {
                        // A vectored write may stop after its first slice (the default implementation does).
                        let vz = seq.vectored.get(oi).copied().unwrap_or(0) as usize;
                        if vz > 0 && bytes.len() > vz { vz.min(free) } else { bytes.len().min(free) }
                    } && !run.m.shutdown
                    {
                        v = Some(viol("capacity", "short_write", format!("poll_write accepted {} bytes, expected min(len={}, free={}): {}", k, bytes.len(), free, run.ctx(oi, op, &res_txt()))));
                    } else {
                        // (A write accepted after the writer's own shutdown is not demanded to fail
                        // by the property; if the channel accepted it the model follows, and the
                        // reader-side end-of-stream rules judge the consequences.)
                        if k < bytes.len() {
                            c.partial_writes += 1;
                        }
                        run.m.accept(&bytes[..k]);
                        c.bytes_written += k as u64;
                    }
                }
            }
            (Op::Write { .. }, Raw::Err(_)) => {
                run.writer_wait = None;
                c.write_errors += 1;
                if !run.m.reader_dropped && !run.m.shutdown {
                    v = Some(viol("capacity", "write_error_open", format!("poll_write failed although both ends are open: {}", run.ctx(oi, op, &res_txt()))));
                }
            }
            // ............................................................ writer: flush / shutdown
            (Op::Flush, Raw::Pending) | (Op::Shutdown, Raw::Pending) => {
                if !is_yield {
                    let which = if matches!(op, Op::Flush) { "flush" } else { "shutdown" };
                    v = Some(viol("spurious_block", which, format!("poll_{which} returned Pending without waking the caller (nothing to wait for): {}", run.ctx(oi, op, &res_txt()))));
                }
            }
            (Op::Flush, _) => {}
            (Op::Shutdown, Raw::UnitOk) => {
                c.shutdowns += 1;
                run.m.shutdown = true;
                // The writer closed its own side: it is not waiting for space any more.
                run.writer_wait = None;
            }
            (Op::Shutdown, _) => {
                // An error from shutdown: not covered by the property; the model does not
                // consider the writer closed.
            }
            _ => {
                return Err(format!("seq {si} op {oi}: impossible op/result combination"));
            }
        }

        // The record: operation, arguments, result, observed wake counts, budget mirror.
        match op {
            Op::Read { n } => {
                h.start(b'R');
                h.put(si as u64);
                h.put(*n as u64);
            }
            Op::Write { bytes } => {
                h.start(b'W');
                h.put(si as u64);
                h.put_bytes(bytes);
            }
            Op::Flush => {
                h.start(b'F');
                h.put(si as u64);
            }
            _ => {
                h.start(b'S');
                h.put(si as u64);
            }
        }
        match &raw {
            Raw::Pending if is_yield => h.tag(b'Y'),
            Raw::Pending => h.tag(b'P'),
            Raw::ReadOk(k) => {
                h.tag(b'K');
                h.put_bytes(&scratch[..*k]);
            }
            Raw::WriteOk(k) => {
                h.tag(b'K');
                h.put(*k as u64);
            }
            Raw::UnitOk => h.tag(b'K'),
            Raw::Err(std::io::ErrorKind::BrokenPipe) => h.tag(b'B'),
            Raw::Err(k) => {
                h.tag(b'E');
                h.put_text(&format!("{:?}", k));
            }
        }
        h.put(rw.get());
        h.put(ww.get());
        h.put(mb.map(|b| b as u64 + 1).unwrap_or(0));
        h.commit(*step, "op", || {
            let bud = match mb {
                // Large-budget mode: the mirror is always LARGE_BUDGET - 1 after a poll.
                Some(_) if small_budget.is_none() => "L".to_string(),
                Some(b) => b.to_string(),
                None => "-".to_string(),
            };
            format!("s{} {} -> {} | {} bud={}", si, fmt_op(op), res_txt(), fmt_state(&run.m, rw.get(), ww.get()), bud)
        });

        // C12.capacity as an invariant of the reference model itself (accepted - read <= capacity).
        if v.is_none() && run.m.buf.len() > run.m.cap {
            v = Some(viol("capacity", "over", format!("accepted - read exceeds the capacity: {}", run.ctx(oi, op, &res_txt()))));
        }
        // Lost wake-up rule for the *other* side.
        if v.is_none() {
            v = match side {
                Side::Reader => run.check_writer_woken(c, oi, op),
                Side::Writer => run.check_reader_woken(c, oi, op),
            };
        }
        if v.is_some() {
            result = v;
            break;
        }
    }
    if let Some(v) = &result {
        h.start(b'v');
        h.put(si as u64);
        h.put_text(&v.sig);
        h.commit(*step, "violation", || format!("s{} {}", si, v.sig));
    }
    if run.resolved > 0 {
        c.seqs_nontrivial += 1;
    }
    h.start(b'e');
    h.put(si as u64);
    h.put(run.m.accepted);
    h.put(run.m.read);
    h.put(run.resolved);
    h.commit(*step, "end", || format!("seq={} accepted={} read={} resolved_waits={}", si, run.m.accepted, run.m.read, run.resolved));
    drop(reader);
    drop(writer);
    Ok(result)
}

impl World for ChanWorld {
    fn name(&self) -> &'static str {
        "chan"
    }

    fn generate(&self, seed: u64, _tier: Tier) -> Json {
        serde_json::to_value(ChanScenario::batch(seed, DEFAULT_BATCH)).unwrap()
    }

    fn execute(&self, scenario: &Json, keep_log: bool) -> Outcome {
        let sc: ChanScenario = match serde_json::from_value(scenario.clone()) {
            Ok(s) => s,
            Err(e) => {
                return Outcome { harness_error: Some(format!("bad scenario: {e}")), ..Default::default() };
            }
        };
        let n_seqs = match sc.len() {
            Ok(n) => n,
            Err(e) => {
                return Outcome { harness_error: Some(format!("bad scenario: {e}")), ..Default::default() };
            }
        };
        let mut h = Hist::new(keep_log);
        let mut c = Ctr::default();
        let mut step = 0u64;
        let mut violations: Vec<Violation> = vec![];
        let mut harness_error = None;
        for si in 0..n_seqs {
            // Generated sequences are produced one at a time (a pure function of seed and index).
            let seq_owned = sc.seq(si);
            let seq = &seq_owned;
            let r = catch_unwind(AssertUnwindSafe(|| run_seq(si, seq, &mut h, &mut step, &mut c)));
            let v = match r {
                Ok(Ok(v)) => v,
                Ok(Err(e)) => {
                    harness_error = Some(e);
                    break;
                }
                Err(p) => {
                    let msg = if let Some(s) = p.downcast_ref::<&str>() {
                        s.to_string()
                    } else if let Some(s) = p.downcast_ref::<String>() {
                        s.clone()
                    } else {
                        "panic".to_string()
                    };
                    h.start(b'p');
                    h.put(si as u64);
                    h.commit(step, "panic", || format!("s{si} {msg}"));
                    // A pipe that panics on a legal poll sequence is neither lossless nor live.
                    Some(viol("panic", "", format!("the channel panicked in seq {si} (cap={} budget={:?}) near op {}: {msg}", seq.cap, seq.budget, step)))
                }
            };
            if let Some(v) = v {
                if !violations.iter().any(|x| x.sig == v.sig) {
                    violations.push(v);
                }
            }
        }
        // Whole tasks under the product's RunWithBudget wrapper.
        let probes = sc.task_probes();
        for (pi, probe) in probes.iter().enumerate() {
            if harness_error.is_some() {
                break;
            }
            c.task_probes += 1;
            if let Some(v) = run_task_probe(pi, probe, &mut h, &mut step, &mut c) {
                if !violations.iter().any(|x| x.sig == v.sig) {
                    violations.push(v);
                }
            }
        }
        let mut out = Outcome {
            violations,
            log_hash: h.log.hash(),
            log_lines: std::mem::take(&mut h.lines),
            steps: step,
            decisions: 0,
            sim_time_ms: 0,
            harness_error,
            ..Default::default()
        };
        out.count("seqs", c.seqs);
        out.count("task_probes", c.task_probes);
        out.count("task_probe_polls", c.task_polls);
        out.count("seqs_small_budget", c.seqs_small_budget);
        out.count("seqs_nontrivial", c.seqs_nontrivial);
        out.count("ops", c.ops);
        out.count("polls", c.polls);
        out.count("skipped_ops", c.skipped_ops);
        out.count("pendings_reader", c.pendings_reader);
        out.count("pendings_writer", c.pendings_writer);
        out.count("budget_yields", c.budget_yields);
        out.count("unexpected_yields", c.unexpected_yields);
        out.count("wakeups_checked", c.wakeups_checked);
        out.count("polls_with_other_waker", c.polls_with_other_waker);
        out.count("vectored_writes", c.vectored_writes);
        out.count("wakeups_reader", c.wakeups_reader);
        out.count("wakeups_writer", c.wakeups_writer);
        out.count("wakeups_on_close", c.wakeups_on_close);
        out.count("full_hits", c.full_hits);
        out.count("empty_hits", c.empty_hits);
        out.count("eof_seen", c.eof_seen);
        out.count("drained_after_close", c.drained_after_close);
        out.count("write_errors", c.write_errors);
        out.count("bytes_written", c.bytes_written);
        out.count("bytes_read", c.bytes_read);
        out.count("partial_writes", c.partial_writes);
        out.count("partial_reads", c.partial_reads);
        out.count("drops_reader", c.drops_reader);
        out.count("drops_writer", c.drops_writer);
        out.count("shutdowns", c.shutdowns);
        // Non-trivial: at least one would-block Pending was later resolved by the other side, i.e. a
        // real wake-up obligation was checked (and held).
        out.nontrivial = c.wakeups_reader + c.wakeups_writer > 0;
        out
    }

    fn shrink(&self, scenario: &Json) -> Vec<Json> {
        let Ok(sc) = serde_json::from_value::<ChanScenario>(scenario.clone()) else {
            return vec![];
        };
        scenario::shrink(&sc)
            .into_iter()
            .map(|s| serde_json::to_value(s).unwrap())
            .collect()
    }

    fn rule(&self) -> String {
        "one run = a batch of 256 independent operation sequences derived from the run seed (sequence i of run seed s is gen_seq(s, i)); each sequence draws a capacity 1..=9, a coop mode (budget reset to 2^20 before every poll, or a small budget 2..=4 that persists across polls so forced yields occur) and up to 40 operations (poll_read n=0..12, poll_write of 0..12 attributable bytes, flush, shutdown, drop of either half) with side-bursts so the buffer is often full / empty, executed on the real channel with three counting wakers per side (half of the sequences switch the waker between polls; the wake-up is owed to the waker of the latest poll) and compared to a reference bounded FIFO after every operation. A run is non-trivial if at least one would-block Pending was later resolved by the other side and the wake-up obligation was checked; distinct = distinct hash of the full operation/result history of the batch".to_string()
    }

    fn components(&self) -> Json {
        json!({
            "real": [
                "swimos_byte_channel::byte_channel / ByteReader / ByteWriter (AsyncRead, AsyncWrite, Drop), coop feature enabled",
                "swimos_byte_channel::RunWithBudget / BudgetedFutureExt::with_budget (sets the thread-local coop budget)",
                "parking_lot::Mutex, bytes::BytesMut, tokio::io::ReadBuf"
            ],
            "stub": [
                "the two tasks: replaced by an explicit script of single polls (no executor); wakers only count invocations",
                "reference model: bounded FIFO (VecDeque<u8>, capacity, closed flags)"
            ]
        })
    }
}
