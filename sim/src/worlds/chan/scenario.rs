//! Scenario of W-CHAN: explicit operation sequences, their generator and the shrinker.

use serde::{Deserialize, Serialize};

use crate::core::rng::{mix, Rng};

#[derive(Serialize, Deserialize, Clone, Debug, PartialEq, Eq)]
pub enum Op {
    /// `poll_read` with a buffer of `n` bytes.
    Read { n: usize },
    /// `poll_write` of these bytes (values are unique and increasing within a sequence, modulo 251,
    /// never 0, so every byte read is attributable).
    Write { bytes: Vec<u8> },
    /// `poll_flush` on the writer.
    Flush,
    /// `poll_shutdown` on the writer.
    Shutdown,
    DropReader,
    DropWriter,
}

#[derive(Serialize, Deserialize, Clone, Debug, PartialEq, Eq)]
pub struct Seq {
    /// Channel capacity (1..=9 when generated).
    pub cap: usize,
    /// `None`: the coop budget is reset to a large value before every poll (no forced yields).
    /// `Some(b)`, b >= 2: the budget is set to `b` at the first poll and after every Pending, and
    /// keeps counting down in between (forced yields occur).
    pub budget: Option<usize>,
    pub ops: Vec<Op>,
    /// Which of the side's three wakers the poll of operation i uses (missing entries: waker 0). A task
    /// that is polled again with another waker (a `select!` arm probed with `now_or_never`, a future
    /// moved to another task) must be woken through the latest one.
    #[serde(default, skip_serializing_if = "Vec::is_empty")]
    pub wakers: Vec<u8>,
    /// For write operation i: 0 (or missing) = `poll_write`; n > 0 = `poll_write_vectored` with the bytes cut into
    /// slices of n bytes (the vectored entry point must respect the capacity as well).
    #[serde(default, skip_serializing_if = "Vec::is_empty")]
    pub vectored: Vec<u8>,
    /// Run the sequence on the build of the channel without the `coop` feature (no budget bookkeeping inside the
    /// channel; `budget` is then ignored by the channel itself).
    #[serde(default)]
    pub nocoop: bool,
}

/// Either `{seed, batch}` (sequences generated from the seed) or `{seqs}` (explicit).
#[derive(Serialize, Deserialize, Clone, Debug, PartialEq, Eq)]
pub struct ChanScenario {
    #[serde(default, skip_serializing_if = "Option::is_none")]
    pub seed: Option<u64>,
    #[serde(default, skip_serializing_if = "Option::is_none")]
    pub batch: Option<u64>,
    #[serde(default, skip_serializing_if = "Option::is_none")]
    pub seqs: Option<Vec<Seq>>,
    /// Whole-task probes (explicit form only; the batch form derives them from the seed).
    #[serde(default, skip_serializing_if = "Option::is_none")]
    pub tasks: Option<Vec<TaskProbe>>,
}

/// One task that owns both halves of a channel and is run through the product's `RunWithBudget` wrapper, as every
/// agent, remote and downlink task of the server is: it writes `chunks` (sizes) and shuts down, reads everything back
/// in reads of `read` bytes. Whatever the budget, the task must finish: a coop budget may make it yield, never stall it.
#[derive(Serialize, Deserialize, Clone, Debug, PartialEq, Eq)]
pub struct TaskProbe {
    pub budget: usize,
    pub cap: usize,
    pub chunks: Vec<usize>,
    pub read: usize,
}

pub const TASKS_PER_BATCH: u64 = 4;

pub fn gen_task(seed: u64, idx: u64) -> TaskProbe {
    let mut rng = Rng::new(mix(seed, "chan-task", idx));
    TaskProbe {
        budget: rng.range(1, 5) as usize,
        cap: rng.range(1, 9) as usize,
        chunks: (0..rng.range(1, 4)).map(|_| rng.range(1, 12) as usize).collect(),
        read: rng.range(1, 12) as usize,
    }
}

impl ChanScenario {
    pub fn batch(seed: u64, batch: u64) -> ChanScenario {
        ChanScenario { seed: Some(seed), batch: Some(batch), seqs: None, tasks: None }
    }

    pub fn explicit(seqs: Vec<Seq>) -> ChanScenario {
        ChanScenario { seed: None, batch: None, seqs: Some(seqs), tasks: None }
    }

    /// Number of sequences.
    pub fn len(&self) -> Result<usize, String> {
        match (&self.seqs, self.seed) {
            (Some(s), _) => Ok(s.len()),
            (None, Some(_)) => {
                let n = self.batch.unwrap_or(1);
                if n > 100_000 {
                    return Err(format!("batch {n} too large"));
                }
                Ok(n as usize)
            }
            (None, None) => Err("neither seqs nor seed given".to_string()),
        }
    }

    /// The whole-task probes of this scenario.
    pub fn task_probes(&self) -> Vec<TaskProbe> {
        match (&self.tasks, &self.seqs, self.seed) {
            (Some(t), _, _) => t.clone(),
            (None, None, Some(seed)) => (0..TASKS_PER_BATCH).map(|i| gen_task(seed, i)).collect(),
            _ => vec![],
        }
    }

    /// Sequence `i` (`i < len()`).
    pub fn seq(&self, i: usize) -> Seq {
        match (&self.seqs, self.seed) {
            (Some(s), _) => s[i].clone(),
            (None, Some(seed)) => gen_seq(seed, i as u64),
            (None, None) => Seq { cap: 1, budget: None, ops: vec![], wakers: vec![], vectored: vec![], nocoop: false },
        }
    }

    pub fn sequences(&self) -> Result<Vec<Seq>, String> {
        match (&self.seqs, self.seed) {
            (Some(s), _) => Ok(s.clone()),
            (None, Some(seed)) => {
                let n = self.batch.unwrap_or(1);
                if n > 100_000 {
                    return Err(format!("batch {n} too large"));
                }
                Ok((0..n).map(|i| gen_seq(seed, i)).collect())
            }
            (None, None) => Err("neither seqs nor seed given".to_string()),
        }
    }
}

pub const MAX_OPS: u64 = 40;
pub const MAX_LEN: u64 = 12;

/// Sequence `idx` of the batch of run seed `seed`. Pure function of its arguments.
pub fn gen_seq(seed: u64, idx: u64) -> Seq {
    let mut rng = Rng::new(mix(seed, "chan-seq", idx));
    let cap = rng.range(1, 9) as usize;
    let budget = if rng.chance(1, 2) { None } else { Some(rng.range(2, 4) as usize) };
    let len = if rng.chance(1, 5) { rng.range(1, 10) } else { rng.range(11, MAX_OPS) };
    // Probability (x/16) of switching the acting side after each operation: low values give
    // bursts that fill / drain the buffer completely.
    let flip = *rng.pick(&[2u64, 4, 8, 12]);
    // 0: never closes; otherwise a close operation is drawn with probability 1/close_den per op.
    let close_den = *rng.pick(&[0u64, 0, 40, 20, 10]);
    // Size style: 0 = mixed, 1 = small requests, 2 = requests around the capacity.
    let style = rng.below(3);

    let mut ops = Vec::with_capacity(len as usize);
    let mut reader_alive = true;
    let mut writer_alive = true;
    let mut writer_side = rng.chance(1, 2);
    let mut next_byte: u64 = 0;
    let capu = cap as u64;

    let size = |rng: &mut Rng, zero_pct: u64| -> u64 {
        if rng.below(100) < zero_pct {
            return 0;
        }
        match style {
            1 => rng.range(1, 3),
            2 => {
                let lo = capu.saturating_sub(1).max(1);
                let hi = (capu + 2).min(MAX_LEN);
                rng.range(lo.min(hi), hi)
            }
            _ => match rng.below(3) {
                0 => rng.range(1, 3),
                1 => rng.range(1, MAX_LEN),
                _ => rng.range(capu.min(MAX_LEN), MAX_LEN),
            },
        }
    };

    while (ops.len() as u64) < len && (reader_alive || writer_alive) {
        if rng.below(16) < flip {
            writer_side = !writer_side;
        }
        let act_writer = if !writer_alive {
            false
        } else if !reader_alive {
            true
        } else {
            writer_side
        };
        if close_den > 0 && rng.below(close_den) == 0 {
            // A close operation of the acting side.
            if act_writer {
                if rng.chance(1, 3) {
                    ops.push(Op::Shutdown);
                } else {
                    ops.push(Op::DropWriter);
                    writer_alive = false;
                }
            } else {
                ops.push(Op::DropReader);
                reader_alive = false;
            }
            continue;
        }
        if act_writer {
            if rng.below(100) < 6 {
                ops.push(Op::Flush);
            } else {
                let n = size(&mut rng, 4);
                let mut bytes = Vec::with_capacity(n as usize);
                for _ in 0..n {
                    next_byte = next_byte % 251 + 1;
                    bytes.push(next_byte as u8);
                }
                ops.push(Op::Write { bytes });
            }
        } else {
            let n = size(&mut rng, 3);
            ops.push(Op::Read { n: n as usize });
        }
    }
    // Waker identities (separate stream so that the operations of a sequence do not depend on it): half of
    // the sequences keep one waker per side, the others switch with probability 1/3 per operation.
    let mut wr = Rng::new(mix(seed, "chan-wakers", idx));
    let mut wakers = vec![];
    if wr.chance(1, 2) {
        let mut cur = 0u8;
        for _ in 0..ops.len() {
            if wr.chance(1, 3) {
                cur = wr.below(3) as u8;
            }
            wakers.push(cur);
        }
    }
    let mut vr = Rng::new(mix(seed, "chan-vectored", idx));
    let mut vectored = vec![];
    if vr.chance(1, 3) {
        for _ in 0..ops.len() {
            vectored.push(if vr.chance(1, 2) { vr.range(1, 4) as u8 } else { 0 });
        }
    }
    // A fifth of the sequences run on the channel built without the coop feature (always without forced yields).
    let nocoop = budget.is_none() && Rng::new(mix(seed, "chan-nocoop", idx)).chance(1, 3);
    Seq { cap, budget, ops, wakers, vectored, nocoop }
}

fn single(seq: Seq) -> ChanScenario {
    ChanScenario::explicit(vec![seq])
}

/// Smaller candidates, simplest first.
/// * batch form / several sequences: every single sequence on its own (sequences are independent:
///   each starts with a fresh channel, fresh wakers and a budget reset);
/// * one sequence: drop operations (tail halves first, then chunks, then singles from the end),
///   then switch the coop mode to the large budget, then shorten individual requests.
/// The capacity is never changed (a lower capacity is not a simpler channel).
pub fn shrink(sc: &ChanScenario) -> Vec<ChanScenario> {
    let Ok(seqs) = sc.sequences() else {
        return vec![];
    };
    let probes = sc.task_probes();
    if !probes.is_empty() {
        // Every probe on its own first (simplest), then the sequences without probes.
        let mut out: Vec<ChanScenario> = vec![];
        if probes.len() > 1 || !seqs.is_empty() {
            for p in probes.iter() {
                out.push(ChanScenario { seed: None, batch: None, seqs: Some(vec![]), tasks: Some(vec![p.clone()]) });
            }
            out.push(ChanScenario { seed: None, batch: None, seqs: Some(seqs), tasks: None });
            return out;
        }
        let p = &probes[0];
        let mut push = |q: TaskProbe| out.push(ChanScenario { seed: None, batch: None, seqs: Some(vec![]), tasks: Some(vec![q]) });
        if p.chunks.len() > 1 {
            let mut q = p.clone();
            q.chunks.pop();
            push(q);
        }
        for i in 0..p.chunks.len() {
            if p.chunks[i] > 1 {
                let mut q = p.clone();
                q.chunks[i] = 1;
                push(q);
            }
        }
        if p.read > 1 {
            let mut q = p.clone();
            q.read = 1;
            push(q);
        }
        if p.cap != 8 {
            let mut q = p.clone();
            q.cap = 8;
            push(q);
        }
        return out;
    }
    if sc.seqs.is_none() || seqs.len() > 1 {
        return seqs.into_iter().map(single).collect();
    }
    let Some(seq) = seqs.into_iter().next() else {
        return vec![];
    };
    let n = seq.ops.len();
    let mut out: Vec<ChanScenario> = vec![];
    let push = |s: Seq, out: &mut Vec<ChanScenario>| {
        let c = single(s);
        if !out.contains(&c) {
            out.push(c);
        }
    };
    // Chunks: n/2, n/4, ... 1; for each size, from the end towards the start.
    let mut chunk = n / 2;
    while chunk >= 1 {
        let mut end = n;
        while end > 0 {
            let start = end.saturating_sub(chunk);
            let mut s = seq.clone();
            s.ops.drain(start..end);
            if s.wakers.len() >= end {
                s.wakers.drain(start..end);
            }
            if s.vectored.len() >= end {
                s.vectored.drain(start..end);
            }
            push(s, &mut out);
            end = start;
        }
        if chunk == 1 {
            break;
        }
        chunk /= 2;
    }
    if seq.budget.is_some() {
        let mut s = seq.clone();
        s.budget = None;
        push(s, &mut out);
    }
    if !seq.wakers.is_empty() {
        let mut s = seq.clone();
        s.wakers.clear();
        push(s, &mut out);
    }
    if !seq.vectored.is_empty() {
        let mut s = seq.clone();
        s.vectored.clear();
        push(s, &mut out);
    }
    for i in 0..n {
        match &seq.ops[i] {
            Op::Write { bytes } if bytes.len() > 1 => {
                let mut s = seq.clone();
                s.ops[i] = Op::Write { bytes: bytes[..bytes.len() - 1].to_vec() };
                push(s, &mut out);
            }
            Op::Read { n: k } if *k > 1 => {
                let mut s = seq.clone();
                s.ops[i] = Op::Read { n: *k - 1 };
                push(s, &mut out);
            }
            _ => {}
        }
    }
    out
}
