//! Reference model of the byte channel: a bounded FIFO with closed flags.

use std::collections::VecDeque;

/// `coop::DEFAULT_START_BUDGET` (private in the product; only used to mirror the budget in the log
/// and in the `unexpected_yields` counter, never in an oracle).
pub const DEFAULT_START_BUDGET: usize = 64;

#[derive(Debug)]
pub struct Model {
    pub cap: usize,
    /// Bytes accepted by `poll_write` and not yet returned by `poll_read`, in order.
    pub buf: VecDeque<u8>,
    /// Total bytes accepted / read so far. `buf` is always exactly the accepted stream from
    /// position `read` on, so "bytes read are a prefix of bytes accepted" is checked by comparing
    /// every read against the front of `buf`.
    pub accepted: u64,
    pub read: u64,
    /// `poll_shutdown` on the writer returned Ok.
    pub shutdown: bool,
    pub writer_dropped: bool,
    pub reader_dropped: bool,
    /// The reader has been given end-of-stream.
    pub eof_seen: bool,
}

impl Model {
    pub fn new(cap: usize) -> Model {
        Model {
            cap,
            buf: VecDeque::new(),
            accepted: 0,
            read: 0,
            shutdown: false,
            writer_dropped: false,
            reader_dropped: false,
            eof_seen: false,
        }
    }

    pub fn free(&self) -> usize {
        self.cap.saturating_sub(self.buf.len())
    }

    /// The writer will produce no more bytes (shut down or dropped).
    pub fn writer_closed(&self) -> bool {
        self.shutdown || self.writer_dropped
    }

    /// A `poll_read` (with a non-empty buffer) could complete now: data, or end-of-stream.
    pub fn reader_can_progress(&self) -> bool {
        !self.buf.is_empty() || self.writer_closed()
    }

    /// A pending `poll_write` could complete now because of something the reader side did: space
    /// was freed, or the reader was dropped (the write fails).
    pub fn writer_can_progress(&self) -> bool {
        self.free() > 0 || self.reader_dropped
    }

    pub fn accept(&mut self, bytes: &[u8]) {
        self.buf.extend(bytes.iter().copied());
        self.accepted += bytes.len() as u64;
    }

    pub fn consume(&mut self, k: usize) {
        for _ in 0..k {
            self.buf.pop_front();
        }
        self.read += k as u64;
    }
}
