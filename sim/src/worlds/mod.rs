pub mod agent;
pub mod dlrt;
