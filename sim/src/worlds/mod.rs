pub mod agent;
pub mod dlrt;
pub mod dltask;
pub mod vote;
pub mod store;
pub mod codec;
pub mod chan;
pub mod recon;
