pub mod agent;
pub mod dlrt;
pub mod dltask;
pub mod vote;
pub mod store;
