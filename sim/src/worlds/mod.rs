pub mod agent;
