//! Scenario of the `socket` world (explicit, JSON), its generator and its shrinker.

use serde::{Deserialize, Serialize};

use crate::core::rng::Rng;

#[derive(Debug, Clone, Copy, Serialize, Deserialize, PartialEq, Eq, PartialOrd, Ord)]
pub enum Kind {
    Link,
    Sync,
    Unlink,
    Command,
    Linked,
    Synced,
    Unlinked,
    Event,
}

impl Kind {
    pub fn is_request(&self) -> bool {
        matches!(self, Kind::Link | Kind::Sync | Kind::Unlink | Kind::Command)
    }
    pub fn has_body(&self) -> bool {
        matches!(self, Kind::Command | Kind::Event | Kind::Unlinked)
    }
    pub fn tag(&self) -> &'static str {
        match self {
            Kind::Link => "link",
            Kind::Sync => "sync",
            Kind::Unlink => "unlink",
            Kind::Command => "command",
            Kind::Linked => "linked",
            Kind::Synced => "synced",
            Kind::Unlinked => "unlinked",
            Kind::Event => "event",
        }
    }
    pub fn from_tag(t: &str) -> Option<Kind> {
        Some(match t {
            "link" => Kind::Link,
            "sync" => Kind::Sync,
            "unlink" => Kind::Unlink,
            "command" => Kind::Command,
            "linked" => Kind::Linked,
            "synced" => Kind::Synced,
            "unlinked" => Kind::Unlinked,
            "event" => Kind::Event,
            _ => return None,
        })
    }
}

#[derive(Debug, Clone, Serialize, Deserialize, PartialEq, Eq)]
pub enum Topo {
    /// Two real RemoteTasks back to back: server side (agents) <-> client side (downlinks).
    Pair,
    /// One real RemoteTask in the server role (agents) against a scripted web socket client.
    PeerIsClient,
    /// One real RemoteTask in the client role (downlinks) against a scripted web socket server.
    PeerIsServer,
}

#[derive(Debug, Clone, Serialize, Deserialize, PartialEq, Eq)]
pub struct ReadCfg {
    pub max_chunk: u32,
    pub stall_pm: u32,
    pub stall_max: u32,
}

impl ReadCfg {
    pub fn fast() -> ReadCfg {
        ReadCfg { max_chunk: 4096, stall_pm: 0, stall_max: 1 }
    }
}

#[derive(Debug, Clone, Serialize, Deserialize, PartialEq, Eq)]
pub enum DlOp {
    /// Write one request envelope for the downlink's own (node, lane).
    Send { kind: Kind, body: String },
    Pause(u32),
    /// Drop both halves of the downlink.
    Detach,
    /// Drop only the half the downlink receives on; the half it sends on stays open (nothing tells the socket task
    /// about it except the failure of its next write to the downlink).
    DropReader,
}

#[derive(Debug, Clone, Serialize, Deserialize, PartialEq, Eq)]
pub struct Downlink {
    pub id: u32,
    pub node: String,
    pub lane: String,
    /// Send-only client (`AttachClient::OneWay`): only commands, no receiving half.
    pub oneway: bool,
    pub attach_delay: u32,
    pub in_cap: u32,
    pub out_cap: u32,
    pub read: ReadCfg,
    pub chunk_seed: u64,
    pub ops: Vec<DlOp>,
}

#[derive(Debug, Clone, Serialize, Deserialize, PartialEq, Eq)]
pub enum AgOp {
    /// Write one response envelope for (own node, lane).
    Send { kind: Kind, lane: String, body: Option<String> },
    Pause(u32),
    /// The agent stops: both halves of its current route are dropped; the script continues when the
    /// socket task has resolved the node again.
    Stop,
}

#[derive(Debug, Clone, Serialize, Deserialize, PartialEq, Eq)]
pub struct Agent {
    pub id: u32,
    pub node: String,
    /// The first `refuse_first` FindNode requests for this node are answered with NoSuchAgent (the
    /// agent "appears" later).
    pub refuse_first: u32,
    /// Yields of the resolver before it answers.
    pub resolve_delay: u32,
    pub in_cap: u32,
    pub out_cap: u32,
    pub read: ReadCfg,
    pub chunk_seed: u64,
    pub ops: Vec<AgOp>,
}

#[derive(Debug, Clone, Serialize, Deserialize, PartialEq, Eq)]
pub enum PeerOp {
    /// A valid envelope, written by the harness's own writer in formatting style `style`.
    Env { kind: Kind, node: String, lane: String, body: String, style: u32 },
    /// A text frame that is not a valid envelope (`class` = "invalid") or one the task ignores
    /// (`class` = "ignored": auth / deauth).
    Raw { text: String, class: String },
    /// A text frame whose payload is not UTF-8.
    BadUtf8,
    Binary(u32),
    Ping(u32),
    Pause(u32),
    Close,
}

#[derive(Debug, Clone, Serialize, Deserialize, PartialEq, Eq)]
pub struct Pipe {
    pub cap_ab: u32,
    pub cap_ba: u32,
    pub chunk_max: u32,
    /// Cut both directions at this executor step (if the run gets that far).
    pub cut_at: Option<u64>,
    pub cut_eof: bool,
    pub seed: u64,
}

#[derive(Debug, Clone, Serialize, Deserialize, PartialEq, Eq)]
pub struct SockScenario {
    pub topo: Topo,
    pub agents: Vec<Agent>,
    pub downlinks: Vec<Downlink>,
    pub peer: Vec<PeerOp>,
    pub peer_read_stall: u32,
    pub pipe: Pipe,
    pub reg_buffer: u32,
    pub find_cap: u32,
    pub attach_cap: u32,
    pub budget_s: u32,
    pub budget_c: u32,
    pub policy: u32,
    pub sched_seed: u64,
    pub tokio_seed: u64,
    /// Start value of std's hash keys on the run's thread (iteration order of the product's HashMaps).
    #[serde(default)]
    pub hash_seed: u64,
    pub max_steps: u64,
}

pub const ADVERSARIAL: &[&str] = &[
    "",
    "true",
    "false",
    "a\"b",
    "\"",
    "back\\slash",
    "\\",
    "\\u0041",
    "tab\there",
    "nl\nx",
    "\r",
    "\u{1}ctl",
    "\u{8}\u{c}",
    // Control characters whose numeric escapes contain the hexadecimal digits a-f.
    "\u{b}vt",
    "\u{e}\u{f}",
    "\u{1a}\u{1b}[0m",
    "x\u{1c}\u{1d}\u{1e}\u{1f}",
    "\u{7f}del",
    "\u{1F600}smile",
    "\u{1D4B3}",
    "%20pct%2F",
    "with space",
    " lead",
    "trail ",
    "@at",
    "a:b",
    "a,b",
    "a)b",
    "(a",
    "{x}",
    "a;b",
    "#h",
    "'sq'",
    "1digit",
    "-dash",
    "\u{b7}dot",
    "\u{fc}n\u{ef}",
    "\u{2028}",
    "\u{feff}bom",
    "\u{e000}",
    "\u{fffe}",
    "\u{ffff}",
    "e\u{301}",
    "/a/%F0%9F%98%80",
    "node:x,lane:y",
    "@event(node:a,lane:b)",
];

pub const PLAIN_NODES: &[&str] = &["/node", "/unit/foo", "/a", "/b/c", "node"];
pub const PLAIN_LANES: &[&str] = &["lane", "value", "map", "a", "lane-2", "l_3"];

pub fn is_adversarial(s: &str) -> bool {
    !(PLAIN_NODES.contains(&s) || PLAIN_LANES.contains(&s) || s == "a")
}

struct Gen {
    rng: Rng,
    seq: u64,
}

impl Gen {
    fn name(&mut self, plain: &[&str], adv_num: u64, adv_den: u64) -> String {
        if self.rng.chance(adv_num, adv_den) {
            self.rng.pick(ADVERSARIAL).to_string()
        } else {
            self.rng.pick(plain).to_string()
        }
    }

    /// A body carrying a fresh sequence number (except for the empty body).
    fn body(&mut self) -> String {
        self.seq += 1;
        let n = self.seq;
        match self.rng.below(12) {
            0 => String::new(),
            1 | 2 | 3 => format!("{n}"),
            4 => format!("@update(key:{n}) \"v {n}\""),
            5 => format!("@remove(key:\"k\\\"{n}\")"),
            6 => format!("\"text {n} with \\\"quotes\\\" and \\\\ and \\n\""),
            7 => format!("{{a:1,seq:{n},s:\"x y\"}}"),
            8 => format!("@a @b({n}) {{}}"),
            // Leading blanks: the header peeler drops blanks between header and body (compared modulo that).
            9 => format!(" \t{n}"),
            // Not Recon at all: the body is opaque to the socket task.
            10 => format!("]]{n}(( \"open"),
            _ => format!("\"\u{1F600} {n} \u{e9}\""),
        }
    }

    fn read(&mut self) -> ReadCfg {
        ReadCfg {
            max_chunk: *self.rng.pick(&[1u32, 2, 5, 16, 64, 4096, 4096]),
            stall_pm: *self.rng.pick(&[0u32, 0, 30, 150]),
            stall_max: *self.rng.pick(&[1u32, 5, 30]),
        }
    }
}

const CAPS: &[u32] = &[8, 16, 32, 64, 256, 4096];

pub fn generate(seed: u64) -> SockScenario {
    let root = Rng::new(seed);
    let mut g = Gen { rng: root.sub("scenario"), seq: 100 };
    let topo = match g.rng.below(10) {
        0..=5 => Topo::Pair,
        6 | 7 => Topo::PeerIsClient,
        _ => Topo::PeerIsServer,
    };
    // Swarm style: some runs use only plain names, some only adversarial ones.
    let (adv_num, adv_den) = *g.rng.pick(&[(0u64, 1u64), (1, 4), (1, 2), (1, 1)]);
    let faults = g.rng.chance(1, 2);

    // Names.
    let n_agents = if topo == Topo::PeerIsServer { 0 } else { g.rng.range(1, 4) as usize };
    let mut nodes: Vec<String> = vec![];
    while nodes.len() < n_agents {
        let n = g.name(PLAIN_NODES, adv_num, adv_den);
        if !nodes.contains(&n) {
            nodes.push(n);
        }
    }
    let mut unknown_node = g.name(PLAIN_NODES, adv_num, adv_den);
    while nodes.contains(&unknown_node) {
        unknown_node = format!("{unknown_node}/x");
    }
    let n_lanes = g.rng.range(1, 3) as usize;
    let mut lanes: Vec<String> = vec![];
    while lanes.len() < n_lanes {
        let l = g.name(PLAIN_LANES, adv_num, adv_den);
        if !lanes.contains(&l) {
            lanes.push(l);
        }
    }

    // Downlinks.
    let n_dl = if topo == Topo::PeerIsClient { 0 } else { g.rng.range(1, 4) as usize };
    let mut downlinks = vec![];
    let dl_nodes: Vec<String> = if nodes.is_empty() {
        // No agents (scripted server): a small pool of nodes of their own.
        let mut v = vec![];
        let k = g.rng.range(1, 2);
        while (v.len() as u64) < k {
            let n = g.name(PLAIN_NODES, adv_num, adv_den);
            if !v.contains(&n) && n != unknown_node {
                v.push(n);
            }
        }
        v
    } else {
        nodes.clone()
    };
    for id in 0..n_dl {
        let node = if g.rng.chance(1, 7) { unknown_node.clone() } else { g.rng.pick(&dl_nodes).clone() };
        let lane = g.rng.pick(&lanes).clone();
        let oneway = g.rng.chance(1, 6);
        let n_ops = g.rng.range(0, 30);
        let mut ops = vec![];
        for _ in 0..n_ops {
            let x = g.rng.below(20);
            let op = match x {
                0 | 1 => DlOp::Pause(*g.rng.pick(&[1u32, 3, 10, 40])),
                2 | 3 if !oneway => DlOp::Send { kind: Kind::Link, body: String::new() },
                4 | 5 if !oneway => DlOp::Send { kind: Kind::Sync, body: String::new() },
                6 | 7 if !oneway => DlOp::Send { kind: Kind::Unlink, body: String::new() },
                _ => DlOp::Send { kind: Kind::Command, body: g.body() },
            };
            ops.push(op);
        }
        if faults && g.rng.chance(1, 5) {
            let at = g.rng.usize_below(ops.len() + 1);
            ops.truncate(at);
            ops.push(DlOp::Detach);
        }
        downlinks.push(Downlink {
            id: id as u32,
            node,
            lane,
            oneway,
            attach_delay: *g.rng.pick(&[0u32, 0, 5, 30, 120]),
            in_cap: *g.rng.pick(CAPS),
            out_cap: *g.rng.pick(CAPS),
            read: g.read(),
            chunk_seed: root.sub(&format!("d{id}")).next_u64(),
            ops,
        });
    }

    // A downlink that never reads what is sent to it and goes away late: whoever writes to it is blocked on its full
    // channel when it detaches, and must carry on with the other subscribers afterwards.
    {
        let mut dr = root.sub("deaf-downlink");
        if faults && dr.chance(1, 4) {
            if let Some(d) = downlinks.iter_mut().find(|d| !d.oneway) {
                d.read = ReadCfg { max_chunk: 1, stall_pm: 1000, stall_max: 100_000 };
                d.in_cap = *dr.pick(&[4u32, 8, 16]);
                d.ops.retain(|o| !matches!(o, DlOp::Detach));
                if !d.ops.iter().any(|o| matches!(o, DlOp::Send { kind: Kind::Link | Kind::Sync, .. })) {
                    d.ops.insert(0, DlOp::Send { kind: Kind::Link, body: String::new() });
                }
                d.ops.push(DlOp::Pause(*dr.pick(&[40u32, 150, 400])));
                d.ops.push(if dr.chance(1, 2) { DlOp::DropReader } else { DlOp::Detach });
            }
        }
    }

    // Agents.
    let mut agents = vec![];
    for (id, node) in nodes.iter().enumerate() {
        let n_ops = g.rng.range(0, 30);
        // Lanes this agent talks about: mostly the ones with downlinks, sometimes one without.
        let mut ops = vec![];
        for _ in 0..n_ops {
            let lane = if g.rng.chance(1, 10) { format!("{}-nobody", g.rng.pick(&lanes)) } else { g.rng.pick(&lanes).clone() };
            let x = g.rng.below(20);
            let op = match x {
                0 | 1 => AgOp::Pause(*g.rng.pick(&[1u32, 3, 10, 40])),
                2 | 3 => AgOp::Send { kind: Kind::Linked, lane, body: None },
                4 | 5 => AgOp::Send { kind: Kind::Synced, lane, body: None },
                6 => AgOp::Send { kind: Kind::Unlinked, lane, body: None },
                7 => AgOp::Send { kind: Kind::Unlinked, lane, body: Some(String::new()) },
                8 => {
                    g.seq += 1;
                    let b = match g.rng.below(3) {
                        0 => "@nodeNotFound".to_string(),
                        1 => format!("@laneNotFound({})", g.seq),
                        _ => format!("\"reason {}\"", g.seq),
                    };
                    AgOp::Send { kind: Kind::Unlinked, lane, body: Some(b) }
                }
                _ => AgOp::Send { kind: Kind::Event, lane, body: Some(g.body()) },
            };
            ops.push(op);
        }
        if faults && g.rng.chance(1, 5) {
            let at = g.rng.usize_below(ops.len() + 1);
            ops.insert(at, AgOp::Stop);
        }
        agents.push(Agent {
            id: id as u32,
            node: node.clone(),
            refuse_first: if faults && g.rng.chance(1, 5) { g.rng.range(1, 3) as u32 } else { 0 },
            resolve_delay: *g.rng.pick(&[0u32, 0, 2, 20]),
            in_cap: *g.rng.pick(CAPS),
            out_cap: *g.rng.pick(CAPS),
            read: g.read(),
            chunk_seed: root.sub(&format!("a{id}")).next_u64(),
            ops,
        });
    }

    // Scripted peer (one-sided topologies).
    let mut peer = vec![];
    if topo != Topo::Pair {
        let n_ops = g.rng.range(1, 30);
        let targets: Vec<(String, String)> = if topo == Topo::PeerIsClient {
            let mut t = vec![];
            for n in nodes.iter() {
                for l in lanes.iter() {
                    t.push((n.clone(), l.clone()));
                }
            }
            t.push((unknown_node.clone(), lanes[0].clone()));
            t
        } else {
            let mut t: Vec<(String, String)> = downlinks.iter().map(|d| (d.node.clone(), d.lane.clone())).collect();
            t.push((unknown_node.clone(), lanes[0].clone()));
            t.push((dl_nodes[0].clone(), format!("{}-nobody", lanes[0])));
            t
        };
        for _ in 0..n_ops {
            let x = g.rng.below(40);
            let (node, lane) = g.rng.pick(&targets).clone();
            let mut style = g.rng.below(64) as u32;
            // Bits 6..: the frame is sent as two fragments (bit 6), with a ping between them (bit 7), cut at
            // bits 8..15 / 256 of its length.
            if g.rng.chance(1, 5) {
                style |= 64 | if g.rng.chance(1, 2) { 128 } else { 0 } | ((g.rng.below(256) as u32) << 8);
            }
            let requests = [Kind::Link, Kind::Sync, Kind::Unlink, Kind::Command, Kind::Command, Kind::Command];
            let responses = [Kind::Linked, Kind::Synced, Kind::Unlinked, Kind::Event, Kind::Event, Kind::Event];
            let op = match x {
                0 | 1 => PeerOp::Pause(*g.rng.pick(&[1u32, 3, 10, 40])),
                2 => PeerOp::Ping(g.rng.range(0, 20) as u32),
                3 => PeerOp::Raw { text: g.rng.pick(&["@auth", "@deauth", "@auth(a:1) {x}", "@deauth \"bye\""]).to_string(), class: "ignored".into() },
                // The "wrong direction": a server is sent notifications / a client is sent requests.
                4 | 5 => {
                    let kind = if topo == Topo::PeerIsClient { *g.rng.pick(&responses) } else { *g.rng.pick(&requests) };
                    let body = if kind.has_body() { g.body() } else { String::new() };
                    PeerOp::Env { kind, node, lane, body, style }
                }
                _ => {
                    let kind = if topo == Topo::PeerIsClient { *g.rng.pick(&requests) } else { *g.rng.pick(&responses) };
                    let body = if kind.has_body() { g.body() } else { String::new() };
                    PeerOp::Env { kind, node, lane, body, style }
                }
            };
            peer.push(op);
        }
        if faults && g.rng.chance(2, 3) {
            let at = g.rng.usize_below(peer.len() + 1);
            g.seq += 1;
            let m = format!("zzinvalid{}", g.seq);
            let bad = match g.rng.below(22) {
                0 => PeerOp::Binary(g.rng.range(0, 40) as u32),
                1 => PeerOp::BadUtf8,
                2 => PeerOp::Close,
                3 => PeerOp::Raw { text: String::new(), class: "invalid".into() },
                4 => PeerOp::Raw { text: format!("{m}"), class: "invalid".into() },
                5 => PeerOp::Raw { text: format!("@bogus(node:{m},lane:{m}) {m}"), class: "invalid".into() },
                6 => PeerOp::Raw { text: format!("@event(node:{m}) {m}"), class: "invalid".into() },
                7 => PeerOp::Raw { text: format!("@command(lane:{m}) {m}"), class: "invalid".into() },
                8 => PeerOp::Raw { text: format!("@event(node:{m},lane:{m},extra:1) {m}"), class: "invalid".into() },
                9 => PeerOp::Raw { text: format!("@event(node:{m},lane:{m} {m}"), class: "invalid".into() },
                10 => PeerOp::Raw { text: format!("@event(node:\"\\q{m}\",lane:{m}) {m}"), class: "invalid".into() },
                11 => PeerOp::Raw { text: format!("@command(node:12,lane:{m}) {m}"), class: "invalid".into() },
                12 => PeerOp::Raw { text: format!("@event({m}) {m}"), class: "invalid".into() },
                13 => PeerOp::Raw { text: format!("{{node:{m},lane:{m}}}"), class: "invalid".into() },
                14 => PeerOp::Raw { text: format!("@link(node:\"{m},lane:{m})"), class: "invalid".into() },
                15 => PeerOp::Raw { text: format!(" @event(node:{m},lane:{m})"), class: "invalid".into() },
                // Slot values that are empty, blank or end inside a token.
                16 => PeerOp::Raw { text: format!("@event(node:,lane:{m}) {m}"), class: "invalid".into() },
                17 => PeerOp::Raw { text: format!("@command(node:{m},lane:) {m}"), class: "invalid".into() },
                18 => PeerOp::Raw { text: format!("@link(node: ,lane:{m})"), class: "invalid".into() },
                19 => PeerOp::Raw { text: format!("@event(node:{m},lane:\t) {m}"), class: "invalid".into() },
                20 => PeerOp::Raw { text: format!("@sync(node:\"{m}\\,lane:{m})"), class: "invalid".into() },
                _ => PeerOp::Raw { text: format!("@event(node:{m},lane:\"{m}) {m}"), class: "invalid".into() },
            };
            peer.insert(at, bad);
        }
    }

    let pipe = Pipe {
        cap_ab: *g.rng.pick(&[16u32, 64, 256, 4096, 65536]),
        cap_ba: *g.rng.pick(&[16u32, 64, 256, 4096, 65536]),
        chunk_max: *g.rng.pick(&[1u32, 3, 7, 64, 4096, 65536, 65536]),
        cut_at: if faults && g.rng.chance(1, 4) { Some(g.rng.range(5, 2500)) } else { None },
        cut_eof: g.rng.chance(1, 2),
        seed: root.sub("pipe").next_u64(),
    };
    SockScenario {
        topo,
        agents,
        downlinks,
        peer,
        peer_read_stall: *g.rng.pick(&[0u32, 0, 2, 10]),
        pipe,
        reg_buffer: *g.rng.pick(&[1u32, 2, 8]),
        find_cap: *g.rng.pick(&[1u32, 4]),
        attach_cap: *g.rng.pick(&[1u32, 4]),
        budget_s: *g.rng.pick(&[2u32, 3, 8, 64]),
        budget_c: *g.rng.pick(&[2u32, 3, 8, 64]),
        policy: g.rng.below(4) as u32,
        sched_seed: root.sub("sched").next_u64(),
        tokio_seed: root.sub("tokio").next_u64(),
        hash_seed: root.sub("hash").next_u64() | 1,
        max_steps: 80_000,
    }
}

/// The simplest name not yet in use: "a", then "b", ...
fn simplify(s: &str, used: &[String]) -> Option<String> {
    let suffix = if s.ends_with("-nobody") { "-nobody" } else { "" };
    for c in ["a", "b", "c", "d", "e", "f", "g", "h"] {
        let cand = format!("{c}{suffix}");
        if cand == s {
            return None;
        }
        if !used.contains(&cand) {
            return Some(cand);
        }
    }
    None
}

/// Smaller candidates, simplest first.
pub fn shrink(sc: &SockScenario) -> Vec<SockScenario> {
    let mut out: Vec<SockScenario> = vec![];
    // Drop endpoints.
    if sc.agents.len() + sc.downlinks.len() > 1 {
        for i in 0..sc.downlinks.len() {
            let mut c = sc.clone();
            c.downlinks.remove(i);
            out.push(c);
        }
        for i in 0..sc.agents.len() {
            let mut c = sc.clone();
            c.agents.remove(i);
            out.push(c);
        }
    }
    // Drop envelopes / ops (halves, quarters, ..., singles).
    fn chunks(n: usize) -> Vec<(usize, usize)> {
        let mut v = vec![];
        let mut chunk = n / 2;
        while chunk >= 1 {
            let mut start = 0;
            while start < n {
                v.push((start, (start + chunk).min(n)));
                start += chunk;
            }
            if chunk == 1 {
                break;
            }
            chunk /= 2;
        }
        v
    }
    for (i, d) in sc.downlinks.iter().enumerate() {
        for (a, b) in chunks(d.ops.len()) {
            let mut c = sc.clone();
            c.downlinks[i].ops.drain(a..b);
            out.push(c);
        }
    }
    for (i, ag) in sc.agents.iter().enumerate() {
        for (a, b) in chunks(ag.ops.len()) {
            let mut c = sc.clone();
            c.agents[i].ops.drain(a..b);
            out.push(c);
        }
    }
    for (a, b) in chunks(sc.peer.len()) {
        let mut c = sc.clone();
        c.peer.drain(a..b);
        out.push(c);
    }
    // Remove faults.
    if sc.pipe.cut_at.is_some() {
        let mut c = sc.clone();
        c.pipe.cut_at = None;
        out.push(c);
    }
    for (i, ag) in sc.agents.iter().enumerate() {
        if ag.refuse_first > 0 {
            let mut c = sc.clone();
            c.agents[i].refuse_first = 0;
            out.push(c);
        }
        if ag.resolve_delay > 0 {
            let mut c = sc.clone();
            c.agents[i].resolve_delay = 0;
            out.push(c);
        }
    }
    // Simplify strings to "a": a whole name at a time, consistently everywhere.
    let mut names: Vec<String> = vec![];
    for d in sc.downlinks.iter() {
        names.push(d.node.clone());
        names.push(d.lane.clone());
    }
    for a in sc.agents.iter() {
        names.push(a.node.clone());
        for op in a.ops.iter() {
            if let AgOp::Send { lane, .. } = op {
                names.push(lane.clone());
            }
        }
    }
    for p in sc.peer.iter() {
        if let PeerOp::Env { node, lane, .. } = p {
            names.push(node.clone());
            names.push(lane.clone());
        }
    }
    names.sort();
    names.dedup();
    for n in names.iter() {
        let Some(to) = simplify(n, &names) else { continue };
        let mut c = sc.clone();
        let sub = |s: &mut String| {
            if s == n {
                *s = to.clone();
            }
        };
        for d in c.downlinks.iter_mut() {
            sub(&mut d.node);
            sub(&mut d.lane);
        }
        for a in c.agents.iter_mut() {
            sub(&mut a.node);
            for op in a.ops.iter_mut() {
                if let AgOp::Send { lane, .. } = op {
                    sub(lane);
                }
            }
        }
        for p in c.peer.iter_mut() {
            if let PeerOp::Env { node, lane, .. } = p {
                sub(node);
                sub(lane);
            }
        }
        out.push(c);
    }
    // Simplify bodies (keeping them unique is not required for the oracles to stay sound: equal
    // envelopes are matched as a multiset).
    for (i, d) in sc.downlinks.iter().enumerate() {
        for (j, op) in d.ops.iter().enumerate() {
            if let DlOp::Send { kind: Kind::Command, body } = op {
                let simple = format!("{}", 1000 * (i + 1) + j);
                if *body != simple {
                    let mut c = sc.clone();
                    c.downlinks[i].ops[j] = DlOp::Send { kind: Kind::Command, body: simple };
                    out.push(c);
                }
            }
        }
    }
    for (i, a) in sc.agents.iter().enumerate() {
        for (j, op) in a.ops.iter().enumerate() {
            if let AgOp::Send { kind: Kind::Event, lane, body } = op {
                let simple = format!("{}", 100_000 + 1000 * (i + 1) + j);
                if body.as_deref() != Some(simple.as_str()) {
                    let mut c = sc.clone();
                    c.agents[i].ops[j] = AgOp::Send { kind: Kind::Event, lane: lane.clone(), body: Some(simple) };
                    out.push(c);
                }
            }
        }
    }
    for (j, op) in sc.peer.iter().enumerate() {
        if let PeerOp::Env { kind, node, lane, body, style } = op {
            if *style != 0 {
                let mut c = sc.clone();
                c.peer[j] = PeerOp::Env { kind: *kind, node: node.clone(), lane: lane.clone(), body: body.clone(), style: 0 };
                out.push(c);
            }
            if kind.has_body() {
                let simple = format!("{}", 200_000 + j);
                if *body != simple {
                    let mut c = sc.clone();
                    c.peer[j] = PeerOp::Env { kind: *kind, node: node.clone(), lane: lane.clone(), body: simple, style: *style };
                    out.push(c);
                }
            }
        }
    }
    // Timing knobs.
    for (i, d) in sc.downlinks.iter().enumerate() {
        if d.attach_delay != 0 {
            let mut c = sc.clone();
            c.downlinks[i].attach_delay = 0;
            out.push(c);
        }
        if d.read != ReadCfg::fast() {
            let mut c = sc.clone();
            c.downlinks[i].read = ReadCfg::fast();
            out.push(c);
        }
        if d.in_cap != 4096 || d.out_cap != 4096 {
            let mut c = sc.clone();
            c.downlinks[i].in_cap = 4096;
            c.downlinks[i].out_cap = 4096;
            out.push(c);
        }
    }
    for (i, a) in sc.agents.iter().enumerate() {
        if a.read != ReadCfg::fast() {
            let mut c = sc.clone();
            c.agents[i].read = ReadCfg::fast();
            out.push(c);
        }
        if a.in_cap != 4096 || a.out_cap != 4096 {
            let mut c = sc.clone();
            c.agents[i].in_cap = 4096;
            c.agents[i].out_cap = 4096;
            out.push(c);
        }
    }
    if sc.pipe.cap_ab != 65536 || sc.pipe.cap_ba != 65536 || sc.pipe.chunk_max != 65536 {
        let mut c = sc.clone();
        c.pipe.cap_ab = 65536;
        c.pipe.cap_ba = 65536;
        c.pipe.chunk_max = 65536;
        out.push(c);
    }
    if sc.peer_read_stall != 0 {
        let mut c = sc.clone();
        c.peer_read_stall = 0;
        out.push(c);
    }
    if sc.reg_buffer != 8 || sc.find_cap != 4 || sc.attach_cap != 4 {
        let mut c = sc.clone();
        c.reg_buffer = 8;
        c.find_cap = 4;
        c.attach_cap = 4;
        out.push(c);
    }
    if sc.budget_s != 64 || sc.budget_c != 64 {
        let mut c = sc.clone();
        c.budget_s = 64;
        c.budget_c = 64;
        out.push(c);
    }
    // Policy -> Lowest.
    if sc.policy != 0 {
        let mut c = sc.clone();
        c.policy = 0;
        out.push(c);
    }
    out
}
