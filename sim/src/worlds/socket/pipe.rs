//! `SimDuplex`: an in-memory duplex byte pipe owned by the simulator.
//!
//! Two ends (`A`, `B`), each `AsyncRead + AsyncWrite + Unpin + Send`. Every direction is a bounded
//! `VecDeque<u8>` of drawn capacity with one reader waker and one writer waker. Reads and writes are
//! optionally *short*: at most `chunk_max` bytes (drawn per call from a seeded stream) move per call.
//! `cut()` makes both directions fail (or end with EOF, as drawn) and wakes everybody.
//!
//! Nothing here ever looks at the *content* of the bytes (the web socket client role masks its
//! frames with keys the simulator does not control): only lengths influence the behaviour, so the
//! run stays deterministic.

use std::collections::VecDeque;
use std::io;
use std::pin::Pin;
use std::sync::{Arc, Mutex};
use std::task::{Context, Poll, Waker};

use tokio::io::{AsyncRead, AsyncWrite, ReadBuf};

use crate::core::rng::Rng;

#[derive(Default)]
struct Dir {
    buf: VecDeque<u8>,
    cap: usize,
    read_waker: Option<Waker>,
    write_waker: Option<Waker>,
    /// The writing end was shut down or dropped: EOF once drained.
    writer_gone: bool,
    /// The reading end was dropped: writes fail.
    reader_gone: bool,
    /// Total number of bytes accepted.
    pub bytes: u64,
}

impl Dir {
    fn wake_reader(&mut self) {
        if let Some(w) = self.read_waker.take() {
            w.wake();
        }
    }
    fn wake_writer(&mut self) {
        if let Some(w) = self.write_waker.take() {
            w.wake();
        }
    }
}

struct Shared {
    /// dirs[0]: A -> B, dirs[1]: B -> A.
    dirs: [Dir; 2],
    rng: Rng,
    chunk_max: usize,
    cut: bool,
    cut_eof: bool,
    short_reads: u64,
    short_writes: u64,
    full_hits: u64,
}

#[derive(Clone)]
pub struct PipeHandle(Arc<Mutex<Shared>>);

pub struct PipeEnd {
    shared: Arc<Mutex<Shared>>,
    /// Index of the direction this end writes to.
    out: usize,
}

pub struct PipeStats {
    pub bytes_ab: u64,
    pub bytes_ba: u64,
    pub short_reads: u64,
    pub short_writes: u64,
    pub full_hits: u64,
}

pub fn sim_duplex(cap_ab: usize, cap_ba: usize, chunk_max: usize, cut_eof: bool, rng: Rng) -> (PipeEnd, PipeEnd, PipeHandle) {
    let shared = Arc::new(Mutex::new(Shared {
        dirs: [Dir { cap: cap_ab.max(1), ..Default::default() }, Dir { cap: cap_ba.max(1), ..Default::default() }],
        rng,
        chunk_max: chunk_max.max(1),
        cut: false,
        cut_eof,
        short_reads: 0,
        short_writes: 0,
        full_hits: 0,
    }));
    (PipeEnd { shared: shared.clone(), out: 0 }, PipeEnd { shared: shared.clone(), out: 1 }, PipeHandle(shared))
}

impl PipeHandle {
    /// Both directions fail from now on; everything buffered is discarded.
    pub fn cut(&self) {
        let mut s = self.0.lock().unwrap();
        s.cut = true;
        for d in s.dirs.iter_mut() {
            d.buf.clear();
            d.wake_reader();
            d.wake_writer();
        }
    }

    /// Appends raw bytes to the direction written by end `out` in one piece (no capacity limit, no short write):
    /// used by the scripted peer to write web socket frames by hand.
    pub fn inject(&self, out: usize, data: &[u8]) -> bool {
        let mut s = self.0.lock().unwrap();
        if s.cut || s.dirs[out].reader_gone || s.dirs[out].writer_gone {
            return false;
        }
        let d = &mut s.dirs[out];
        d.buf.extend(data.iter().copied());
        d.bytes += data.len() as u64;
        d.wake_reader();
        true
    }

    pub fn is_cut(&self) -> bool {
        self.0.lock().unwrap().cut
    }

    pub fn stats(&self) -> PipeStats {
        let s = self.0.lock().unwrap();
        PipeStats { bytes_ab: s.dirs[0].bytes, bytes_ba: s.dirs[1].bytes, short_reads: s.short_reads, short_writes: s.short_writes, full_hits: s.full_hits }
    }
}

impl Shared {
    fn limit(&mut self) -> usize {
        if self.chunk_max >= 65536 {
            usize::MAX
        } else {
            self.rng.range(1, self.chunk_max as u64) as usize
        }
    }
}

/// Diagnostics only: VERIF_TRACE_PIPE=1 prints every read / write (lengths) to stderr.
fn trace() -> bool {
    static ON: std::sync::OnceLock<bool> = std::sync::OnceLock::new();
    *ON.get_or_init(|| std::env::var("VERIF_TRACE_PIPE").is_ok())
}

impl AsyncRead for PipeEnd {
    fn poll_read(self: Pin<&mut Self>, cx: &mut Context<'_>, buf: &mut ReadBuf<'_>) -> Poll<io::Result<()>> {
        let inp = 1 - self.out;
        if trace() {
            let s = self.shared.lock().unwrap();
            eprintln!("  [{}] pipe read  end={} have={} want={}", crate::core::exec::now_step(), self.out, s.dirs[inp].buf.len(), buf.remaining());
        }
        let mut s = self.shared.lock().unwrap();
        if s.cut {
            return if s.cut_eof { Poll::Ready(Ok(())) } else { Poll::Ready(Err(io::ErrorKind::ConnectionReset.into())) };
        }
        if buf.remaining() == 0 {
            return Poll::Ready(Ok(()));
        }
        if s.dirs[inp].buf.is_empty() {
            if s.dirs[inp].writer_gone {
                return Poll::Ready(Ok(()));
            }
            s.dirs[inp].read_waker = Some(cx.waker().clone());
            return Poll::Pending;
        }
        let limit = s.limit();
        let d = &mut s.dirs[inp];
        let avail = d.buf.len().min(buf.remaining());
        let n = avail.min(limit);
        for _ in 0..n {
            let b = d.buf.pop_front().unwrap();
            buf.put_slice(&[b]);
        }
        d.wake_writer();
        if n < avail {
            s.short_reads += 1;
        }
        Poll::Ready(Ok(()))
    }
}

impl AsyncWrite for PipeEnd {
    fn poll_write(self: Pin<&mut Self>, cx: &mut Context<'_>, data: &[u8]) -> Poll<io::Result<usize>> {
        let out = self.out;
        if trace() {
            let s = self.shared.lock().unwrap();
            eprintln!("  [{}] pipe write end={} len={} space={}", crate::core::exec::now_step(), self.out, data.len(), s.dirs[out].cap.saturating_sub(s.dirs[out].buf.len()));
        }
        let mut s = self.shared.lock().unwrap();
        if s.cut || s.dirs[out].reader_gone || s.dirs[out].writer_gone {
            return Poll::Ready(Err(io::ErrorKind::BrokenPipe.into()));
        }
        if data.is_empty() {
            return Poll::Ready(Ok(0));
        }
        let space = s.dirs[out].cap.saturating_sub(s.dirs[out].buf.len());
        if space == 0 {
            s.full_hits += 1;
            s.dirs[out].write_waker = Some(cx.waker().clone());
            return Poll::Pending;
        }
        let limit = s.limit();
        let want = data.len().min(space);
        let n = want.min(limit);
        let d = &mut s.dirs[out];
        d.buf.extend(data[..n].iter().copied());
        d.bytes += n as u64;
        d.wake_reader();
        if n < data.len() {
            s.short_writes += 1;
        }
        Poll::Ready(Ok(n))
    }

    fn poll_flush(self: Pin<&mut Self>, _cx: &mut Context<'_>) -> Poll<io::Result<()>> {
        let s = self.shared.lock().unwrap();
        if s.cut {
            Poll::Ready(Err(io::ErrorKind::BrokenPipe.into()))
        } else {
            Poll::Ready(Ok(()))
        }
    }

    fn poll_shutdown(self: Pin<&mut Self>, _cx: &mut Context<'_>) -> Poll<io::Result<()>> {
        let out = self.out;
        let mut s = self.shared.lock().unwrap();
        s.dirs[out].writer_gone = true;
        s.dirs[out].wake_reader();
        Poll::Ready(Ok(()))
    }
}

impl Drop for PipeEnd {
    fn drop(&mut self) {
        let out = self.out;
        let inp = 1 - out;
        if let Ok(mut s) = self.shared.lock() {
            s.dirs[out].writer_gone = true;
            s.dirs[out].wake_reader();
            s.dirs[inp].reader_gone = true;
            s.dirs[inp].wake_writer();
        }
    }
}
