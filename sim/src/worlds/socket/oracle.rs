//! Oracles of C11 on the recorded history of one run.
//!
//! What is compared how (decided by reading the product):
//! * node, lane: exact string equality (they are *decoded* strings on both sides; the writer quotes
//!   and escapes, the reader unescapes).
//! * body: byte-exact, except for blanks (spaces, tabs) between the header and the body, which the
//!   header peeler skips (`preceded(space0, rest)`): leading blanks of a sent body are ignored. An
//!   `unlinked` with an empty body equals an `unlinked` without one (the byte-channel encoding has
//!   no way to tell them apart).
//! * kind: exact.

use std::collections::{BTreeMap, BTreeSet};

use crate::core::Violation;

use super::run::{Env, Record, Recv, Sent};

/// Exploration aid (VERIF_SOCKET_SKIP_KNOWN=1): the driver keeps at most 200 violations per worker,
/// so a frequent known finding can crowd out rarer ones in long batches.
fn skip_known() -> bool {
    static ON: std::sync::OnceLock<bool> = std::sync::OnceLock::new();
    *ON.get_or_init(|| std::env::var("VERIF_SOCKET_SKIP_KNOWN").is_ok())
}
use super::scenario::*;

const P: &str = "C11";
const NOT_FOUND_BODY: &str = "@nodeNotFound";

#[derive(Debug, Clone, Copy, PartialEq, Eq)]
enum Mode {
    /// Everything from some index <= `must_from` to the end was delivered, in order, without gaps.
    Exact { must_from: usize },
    /// A contiguous run (possibly empty) was delivered (the connection or the addressee went away).
    Window,
    /// An in-order sub-sequence was delivered (the addressee itself came and went).
    Subseq,
}

struct Source {
    name: String,
    msgs: Vec<Env>,
    mode: Mode,
}

/// Key used by the order stages: the body of an `unlinked` is left out so that the (separately
/// reported) loss of that body does not hide ordering and delivery problems.
fn relaxed(e: &Env) -> Env {
    let mut e = e.clone();
    if e.kind == Kind::Unlinked {
        e.body = None;
    }
    e
}

const NOT_STARTED: u16 = u16::MAX;
const MAX_STATES: usize = 4000;

enum Dp {
    Ok,
    /// No assignment explains reception number `at`.
    StuckAt(usize),
    /// All receptions are explained but the end condition fails.
    Incomplete,
    TooManyStates,
}

/// Is `received` an interleaving of the sources, each contributing according to its mode?
fn interleaving(received: &[Env], sources: &[(Vec<Env>, Mode)]) -> Dp {
    let mut states: BTreeSet<Vec<u16>> = BTreeSet::new();
    states.insert(vec![NOT_STARTED; sources.len()]);
    for (ri, r) in received.iter().enumerate() {
        let mut next: BTreeSet<Vec<u16>> = BTreeSet::new();
        for st in states.iter() {
            for (i, (msgs, mode)) in sources.iter().enumerate() {
                let cur = st[i];
                match mode {
                    Mode::Subseq => {
                        let from = if cur == NOT_STARTED { 0 } else { cur as usize };
                        if let Some(p) = msgs[from.min(msgs.len())..].iter().position(|m| m == r) {
                            let mut n = st.clone();
                            n[i] = (from + p + 1) as u16;
                            next.insert(n);
                        }
                    }
                    Mode::Exact { .. } | Mode::Window => {
                        if cur == NOT_STARTED {
                            let limit = match mode {
                                Mode::Exact { must_from } => (*must_from + 1).min(msgs.len()),
                                _ => msgs.len(),
                            };
                            for (j, m) in msgs[..limit].iter().enumerate() {
                                if m == r {
                                    let mut n = st.clone();
                                    n[i] = (j + 1) as u16;
                                    next.insert(n);
                                }
                            }
                        } else if (cur as usize) < msgs.len() && &msgs[cur as usize] == r {
                            let mut n = st.clone();
                            n[i] = cur + 1;
                            next.insert(n);
                        }
                    }
                }
            }
        }
        if next.is_empty() {
            return Dp::StuckAt(ri);
        }
        if next.len() > MAX_STATES {
            return Dp::TooManyStates;
        }
        states = next;
    }
    let complete = |st: &Vec<u16>| {
        sources.iter().enumerate().all(|(i, (msgs, mode))| match mode {
            Mode::Exact { must_from } => {
                if st[i] == NOT_STARTED {
                    *must_from >= msgs.len()
                } else {
                    st[i] as usize == msgs.len()
                }
            }
            _ => true,
        })
    };
    if states.iter().any(complete) {
        Dp::Ok
    } else {
        Dp::Incomplete
    }
}

pub struct Probes {
    pub order_checks: u64,
    pub order_checks_skipped: u64,
    pub exact_checks: u64,
    pub delivered_after_invalid: u64,
    pub invalid_answered_with_close: u64,
    pub notfound_replies: u64,
}

fn sent_ok<'a>(rec: &'a Record, src: &str) -> Vec<&'a Sent> {
    rec.hist.sent.iter().filter(|s| s.ok && s.src == src).collect()
}

/// The envelopes of an agent, one list per generation: an agent that stopped and was resolved again
/// is a new instance on a new channel, i.e. a different source (the socket task multiplexes the old
/// channel's remaining envelopes with the new channel's; observed, not judged).
fn agent_gens<'a>(rec: &'a Record, src: &str) -> Vec<(u32, Vec<&'a Sent>)> {
    let all = sent_ok(rec, src);
    let gens: BTreeSet<u32> = all.iter().map(|s| s.gen).collect();
    gens.into_iter().map(|g| (g, all.iter().copied().filter(|s| s.gen == g).collect())).collect()
}

fn first_after(msgs: &[&Sent], step: u64) -> usize {
    msgs.iter().position(|s| s.start > step).unwrap_or(msgs.len())
}

fn check_endpoint(
    rec: &Record,
    class: &str,
    ep_name: &str,
    received: &[&Recv],
    sources: &[Source],
    strict: bool,
    out: &mut Vec<Violation>,
    probes: &mut Probes,
) {
    // Stage 1, C11.roundtrip: every envelope received equals one that was sent (by a source that can reach this endpoint).
    let mut usable = true;
    for r in received.iter() {
        let exact = sources.iter().any(|s| s.msgs.iter().any(|m| *m == r.env));
        if exact {
            continue;
        }
        let all: Vec<&Env> = rec.hist.sent.iter().map(|s| &s.env).collect();
        let same_addr_kind: Vec<&Env> = sources.iter().flat_map(|s| s.msgs.iter()).filter(|m| m.kind == r.env.kind && m.node == r.env.node && m.lane == r.env.lane).collect();
        if r.env.kind == Kind::Unlinked && r.env.body.is_none() && same_addr_kind.iter().any(|m| m.body.is_some()) {
            let m = same_addr_kind.iter().find(|m| m.body.is_some()).unwrap();
            if skip_known() {
                continue;
            }
            out.push(Violation::new(P, "C11.roundtrip", "unlinked_body_dropped", format!(
                "{ep_name} received {} but what was sent is {}: the body of the unlinked envelope was lost on the way", r.env.show(), m.show())));
            continue;
        }
        usable = false;
        if !same_addr_kind.is_empty() {
            out.push(Violation::new(P, "C11.roundtrip", &format!("body_changed:{}", r.env.kind.tag()), format!(
                "{ep_name} received {} ; envelopes of that kind sent to that address: {:?}", r.env.show(), same_addr_kind.iter().take(4).map(|m| m.show()).collect::<Vec<_>>())));
        } else if r.env.body.as_deref().map(|b| !b.is_empty()).unwrap_or(false) && all.iter().any(|m| m.kind == r.env.kind && m.body == r.env.body) {
            let m = all.iter().find(|m| m.kind == r.env.kind && m.body == r.env.body).unwrap();
            out.push(Violation::new(P, "C11.roundtrip", "address_changed", format!("{ep_name} received {} but it was sent as {}", r.env.show(), m.show())));
        } else if format!("{:?}", r.env).contains("zzinvalid") {
            out.push(Violation::new(P, "C11.invalid", "delivered", format!("{ep_name} received {} which stems from a frame that is not a valid envelope", r.env.show())));
        } else {
            out.push(Violation::new(P, "C11.roundtrip", &format!("unmatched:{class}"), format!("{ep_name} received {} which nobody sent to it", r.env.show())));
        }
    }
    if !usable {
        return;
    }
    let recv_keys: Vec<Env> = received.iter().map(|r| relaxed(&r.env)).collect();
    // Stage 2, C11.order: per source in the source's order, nothing twice.
    let subseq: Vec<(Vec<Env>, Mode)> = sources.iter().map(|s| (s.msgs.iter().map(relaxed).collect(), Mode::Subseq)).collect();
    probes.order_checks += 1;
    match interleaving(&recv_keys, &subseq) {
        Dp::Ok | Dp::Incomplete => {}
        Dp::TooManyStates => {
            probes.order_checks_skipped += 1;
            return;
        }
        Dp::StuckAt(i) => {
            out.push(Violation::new(P, "C11.order", &format!("reordered_or_duplicated:{class}"), format!(
                "{ep_name}: reception #{i} {} cannot be explained by the sources' own orders (received so far: {:?})",
                received[i].env.show(), received[..=i].iter().map(|r| r.env.show()).collect::<Vec<_>>())));
            return;
        }
    }
    // Stage 3, C11.order / C11.routing (completeness): nothing is lost while the socket is up and the
    // addressee stays attached and reading. Only judged at quiescence.
    if !strict {
        return;
    }
    let real: Vec<(Vec<Env>, Mode)> = sources.iter().map(|s| (s.msgs.iter().map(relaxed).collect(), s.mode)).collect();
    probes.exact_checks += real.iter().filter(|(_, m)| matches!(m, Mode::Exact { .. })).count() as u64;
    match interleaving(&recv_keys, &real) {
        Dp::Ok => {}
        Dp::TooManyStates => probes.order_checks_skipped += 1,
        Dp::StuckAt(_) | Dp::Incomplete => {
            // Name what is missing (multiset difference per exact source).
            let mut left: BTreeMap<Env, i64> = BTreeMap::new();
            for k in recv_keys.iter() {
                *left.entry(k.clone()).or_insert(0) += 1;
            }
            let mut missing = vec![];
            for s in sources.iter() {
                if let Mode::Exact { must_from } = s.mode {
                    for m in s.msgs[must_from.min(s.msgs.len())..].iter() {
                        let k = relaxed(m);
                        let c = left.entry(k).or_insert(0);
                        if *c > 0 {
                            *c -= 1;
                        } else {
                            missing.push(format!("{} from {}", m.show(), s.name));
                        }
                    }
                }
            }
            let what = if missing.is_empty() { "gap".to_string() } else { "lost".to_string() };
            out.push(Violation::new(P, "C11.order", &format!("{what}:{class}"), format!(
                "{ep_name}: the socket was up and the endpoint attached and reading, but not everything addressed to it arrived in order; missing: {:?}; received {} envelopes",
                missing.iter().take(5).collect::<Vec<_>>(), received.len())));
        }
    }
}

pub fn check(rec: &Record) -> (Vec<Violation>, Probes) {
    let mut out = vec![];
    let mut probes = Probes { order_checks: 0, order_checks_skipped: 0, exact_checks: 0, delivered_after_invalid: 0, invalid_answered_with_close: 0, notfound_replies: 0 };
    let sc = &rec.sc;
    let h = &rec.hist;

    for p in &rec.panics {
        out.push(Violation::new(P, "C11.panic", &p.node, format!("{} panicked at step {}: {}", p.node, p.step, p.message)));
    }
    for (_, ep, what) in h.undecodable.iter() {
        let class = if ep == "peer" { "peer" } else if ep.starts_with('a') { "agent" } else { "downlink" };
        out.push(Violation::new(P, "C11.roundtrip", &format!("undecodable:{class}"), format!("{ep} could not read what the socket task produced: {what}")));
    }

    let injected_fault = h.injected.iter().any(|(_, _, class)| class != "ignored");
    let stop = rec.stop_step.unwrap_or(u64::MAX);
    let ended_early = rec.task_s_done.map(|s| s < stop).unwrap_or(false) || rec.task_c_done.map(|s| s < stop).unwrap_or(false);
    let fault = rec.cut_step.is_some() || injected_fault;
    if ended_early && !fault && rec.panics.is_empty() {
        out.push(Violation::new(P, "C11.live", "task_ended_without_fault", format!(
            "a socket task ended (server side: {:?}, client side: {:?}) although the socket was never cut and no bad frame was injected", rec.task_s_done, rec.task_c_done)));
    }
    // Deliveries may stop at any point once the connection went down.
    let window = fault || ended_early || !rec.panics.is_empty();
    let mut strict = rec.quiescent.is_some() && !rec.step_limit && rec.panics.is_empty();

    // ---- liveness of attachment: with the socket up and the task alive, a downlink that asked to be
    // attached is told so (the product's clients only start reading once they are). A stall here
    // explains every missing delivery behind it, so completeness is not judged on top of it.
    if strict && !window && sc.topo != Topo::PeerIsClient {
        let q = rec.quiescent.unwrap_or(u64::MAX);
        let pending: Vec<u32> = sc.downlinks.iter().filter(|d| !h.attach.iter().any(|(s, id, _)| *id == d.id && *s <= q)).map(|d| d.id).collect();
        if !pending.is_empty() && !skip_known() {
            let undelivered = h.sent.iter().filter(|s| s.ok).count() as i64 - h.recv.len() as i64;
            out.push(Violation::new(P, "C11.live", "attach_never_completed", format!(
                "downlinks {:?} asked to be attached but were never answered although the socket is up and the task alive; the system is idle (deadlock) with about {} envelopes undelivered",
                pending, undelivered.max(0))));
        }
        if !pending.is_empty() {
            strict = false;
        }
    }

    let not_found = |node: &str, lane: &str| Env { kind: Kind::Unlinked, node: node.to_string(), lane: lane.to_string(), body: Some(NOT_FOUND_BODY.to_string()) };

    // ---- agents.
    if sc.topo != Topo::PeerIsServer {
        for a in sc.agents.iter() {
            let name = format!("a{}", a.id);
            let mut received: Vec<&Recv> = vec![];
            for r in h.recv.iter().filter(|r| r.ep == name) {
                if r.env.node != a.node {
                    out.push(Violation::new(P, "C11.routing", "agent_foreign_node", format!("agent {name} of node {:?} was handed {}", a.node, r.env.show())));
                } else {
                    received.push(r);
                }
            }
            let comes_and_goes = a.refuse_first > 0 || a.ops.contains(&AgOp::Stop);
            let mode = if comes_and_goes {
                Mode::Subseq
            } else if window {
                Mode::Window
            } else {
                Mode::Exact { must_from: 0 }
            };
            let mut sources = vec![];
            if sc.topo == Topo::Pair {
                for d in sc.downlinks.iter().filter(|d| d.node == a.node) {
                    let src = format!("d{}", d.id);
                    sources.push(Source { name: src.clone(), msgs: sent_ok(rec, &src).iter().map(|s| s.env.clone()).collect(), mode });
                }
            } else {
                let msgs: Vec<Env> = sent_ok(rec, "peer").iter().filter(|s| s.env.kind.is_request() && s.env.node == a.node).map(|s| s.env.clone()).collect();
                sources.push(Source { name: "peer".into(), msgs, mode });
            }
            check_endpoint(rec, "agent", &name, &received, &sources, strict, &mut out, &mut probes);
        }
    }

    // ---- downlinks.
    if sc.topo != Topo::PeerIsClient {
        for d in sc.downlinks.iter() {
            let name = format!("d{}", d.id);
            let mut received: Vec<&Recv> = vec![];
            for r in h.recv.iter().filter(|r| r.ep == name) {
                if r.env.node != d.node || r.env.lane != d.lane {
                    out.push(Violation::new(P, "C11.routing", "downlink_foreign_address", format!("downlink {name} registered for ({:?},{:?}) was handed {}", d.node, d.lane, r.env.show())));
                } else {
                    received.push(r);
                }
            }
            let attached = h.attach.iter().find(|(_, id, ok)| *id == d.id && *ok).map(|(s, _, _)| *s);
            let Some(att) = attached else {
                // Never attached: nothing may arrive (anything that did is reported as unmatched).
                check_endpoint(rec, "downlink", &name, &received, &[], false, &mut out, &mut probes);
                continue;
            };
            if d.oneway {
                continue;
            }
            let detaches = d.ops.contains(&DlOp::Detach) || d.ops.contains(&DlOp::DropReader);
            let mut sources = vec![];
            if sc.topo == Topo::Pair {
                for a in sc.agents.iter().filter(|a| a.node == d.node) {
                    let src = format!("a{}", a.id);
                    for (g, all) in agent_gens(rec, &src) {
                        let msgs: Vec<&Sent> = all.into_iter().filter(|s| s.env.lane == d.lane).collect();
                        let must_from = first_after(&msgs, att);
                        let mode = if window || detaches { Mode::Window } else { Mode::Exact { must_from } };
                        sources.push(Source { name: format!("{src}#{g}"), msgs: msgs.iter().map(|s| s.env.clone()).collect(), mode });
                    }
                }
                // Answers of the server-side task itself for nodes it could not resolve.
                let k = h.resolves.iter().filter(|r| r.agent.is_none() && r.node == d.node && r.lane == d.lane).count();
                if k > 0 {
                    sources.push(Source { name: "taskS(not found)".into(), msgs: vec![not_found(&d.node, &d.lane); k], mode: Mode::Subseq });
                }
            } else {
                let msgs: Vec<&Sent> = sent_ok(rec, "peer").into_iter().filter(|s| !s.env.kind.is_request() && s.env.node == d.node && s.env.lane == d.lane).collect();
                let must_from = first_after(&msgs, att);
                let mode = if window || detaches { Mode::Window } else { Mode::Exact { must_from } };
                sources.push(Source { name: "peer".into(), msgs: msgs.iter().map(|s| s.env.clone()).collect(), mode });
            }
            check_endpoint(rec, "downlink", &name, &received, &sources, strict, &mut out, &mut probes);

            // An unknown node: every request other than a command is answered (unlinked / node not found).
            if sc.topo == Topo::Pair && strict && !window && !detaches && !sc.agents.iter().any(|a| a.node == d.node) {
                let alone = sc.downlinks.iter().filter(|o| o.node == d.node && o.lane == d.lane).count() == 1;
                if alone {
                    let expected = sent_ok(rec, &name).iter().filter(|s| s.env.kind != Kind::Command).count();
                    let got = received.iter().filter(|r| r.env.kind == Kind::Unlinked).count();
                    probes.notfound_replies += got as u64;
                    if got < expected {
                        out.push(Violation::new(P, "C11.order", "lost:notfound_reply", format!(
                            "downlink {name} sent {expected} link/sync/unlink requests to the unknown node {:?} but received only {got} unlinked answers", d.node)));
                    }
                }
            }
        }
    }

    // ---- the scripted peer reads everything the real task writes.
    if sc.topo != Topo::Pair {
        let received: Vec<&Recv> = h.recv.iter().filter(|r| r.ep == "peer").collect();
        let mode = if window { Mode::Window } else { Mode::Exact { must_from: 0 } };
        let mut sources = vec![];
        if sc.topo == Topo::PeerIsClient {
            for a in sc.agents.iter() {
                let src = format!("a{}", a.id);
                for (g, msgs) in agent_gens(rec, &src) {
                    sources.push(Source { name: format!("{src}#{g}"), msgs: msgs.iter().map(|s| s.env.clone()).collect(), mode });
                }
            }
            let refused: Vec<Env> = h.resolves.iter().filter(|r| r.agent.is_none()).map(|r| not_found(&r.node, &r.lane)).collect();
            if !refused.is_empty() {
                sources.push(Source { name: "taskS(not found)".into(), msgs: refused, mode: Mode::Subseq });
            }
        } else {
            for d in sc.downlinks.iter() {
                let src = format!("d{}", d.id);
                sources.push(Source { name: src.clone(), msgs: sent_ok(rec, &src).iter().map(|s| s.env.clone()).collect(), mode });
            }
            // A client-side task has no agents: every request other than a command is answered.
            let replies: Vec<Env> = sent_ok(rec, "peer").iter().filter(|s| s.env.kind.is_request() && s.env.kind != Kind::Command).map(|s| not_found(&s.env.node, &s.env.lane)).collect();
            if !replies.is_empty() {
                sources.push(Source { name: "taskC(not found)".into(), msgs: replies, mode });
            }
        }
        // The peer sees the text itself: the not-found answer must carry its body.
        check_endpoint(rec, "peer", "peer", &received, &sources, strict, &mut out, &mut probes);
        probes.notfound_replies += received.iter().filter(|r| r.env.kind == Kind::Unlinked && r.env.body.as_deref() == Some(NOT_FOUND_BODY)).count() as u64;
        if sc.topo == Topo::PeerIsClient && strict && !window {
            let mut unknown: BTreeSet<String> = BTreeSet::new();
            for s in sent_ok(rec, "peer") {
                if s.env.kind.is_request() && !sc.agents.iter().any(|a| a.node == s.env.node) {
                    unknown.insert(s.env.node.clone());
                }
            }
            for n in unknown {
                let expected = sent_ok(rec, "peer").iter().filter(|s| s.env.node == n && s.env.kind.is_request() && s.env.kind != Kind::Command).count();
                let got = received.iter().filter(|r| r.env.kind == Kind::Unlinked && r.env.node == n).count();
                if got < expected {
                    out.push(Violation::new(P, "C11.order", "lost:notfound_reply", format!("the peer sent {expected} link/sync/unlink requests to the unknown node {n:?} but received only {got} unlinked answers")));
                }
            }
        }
    }

    // ---- frames that are not valid envelopes.
    if let Some((step, idx, _)) = h.injected.iter().find(|(_, _, class)| class != "ignored") {
        for r in h.recv.iter().filter(|r| r.ep != "peer") {
            if format!("{:?}", r.env).contains("zzinvalid") {
                out.push(Violation::new(P, "C11.invalid", "delivered", format!("{} received {} which stems from a frame that is not a valid envelope", r.ep, r.env.show())));
            }
        }
        // What the task does afterwards is recorded, not judged: the property only forbids mis-delivery.
        // (Only envelopes with a body are identifiable: the bodies carry unique sequence numbers.)
        let later: BTreeSet<Env> = h.sent.iter().filter(|s| s.src == "peer" && s.op > *idx && s.env.body.as_deref().map(|b| !b.is_empty()).unwrap_or(false)).map(|s| s.env.clone()).collect();
        probes.delivered_after_invalid += h.recv.iter().filter(|r| r.ep != "peer" && r.step > *step && later.contains(&r.env)).count() as u64;
        probes.invalid_answered_with_close += h.peer_ctl.iter().filter(|(_, m)| m.starts_with("close code=Protocol")).count() as u64;
    }

    let mut seen = BTreeSet::new();
    out.retain(|v| seen.insert((v.property.clone(), v.sig.clone())));
    (out, probes)
}
