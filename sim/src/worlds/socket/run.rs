//! Execution of one `socket` scenario: real `RemoteTask`(s) over the simulated duplex, scripted
//! agents / downlinks on byte channels, scripted FindNode resolver, optional scripted web socket peer.

use std::cell::RefCell;
use std::future::Future;
use std::num::NonZeroUsize;
use std::pin::Pin;
use std::rc::Rc;
use std::task::{Context, Poll, Waker};
use std::time::Duration;

use bytes::BytesMut;
use ratchet::{CloseCode, CloseReason, Message, NoExt, NoExtDecoder, NoExtEncoder, PayloadType, Role, WebSocket, WebSocketConfig};
use swimos_api::address::RelativeAddress;
use swimos_messages::protocol::{
    Notification, Operation, RawRequestMessageDecoder, RawRequestMessageEncoder, RawResponseMessageDecoder,
    RawResponseMessageEncoder, RequestMessage, ResponseMessage,
};
use swimos_messages::remote_protocol::{AgentResolutionError, AttachClient, FindNode, NoSuchAgent, NodeConnectionRequest};
use swimos_messages::warp::{peel_envelope_header_str, RawEnvelope};
use swimos_remote::RemoteTask;
use swimos_utilities::byte_channel::{byte_channel, ByteReader, ByteWriter};
use swimos_utilities::trigger;
use tokio::io::{AsyncRead, AsyncWriteExt, ReadBuf};
use tokio::sync::{mpsc, oneshot};
use tokio_util::codec::{Decoder, Encoder};
use uuid::Uuid;

use crate::core::exec::{now_step, Exec, NodePanic, Policy, Scheduler};
use crate::core::log::EventLog;
use crate::core::rng::Rng;

use super::pipe::{sim_duplex, PipeEnd, PipeHandle, PipeStats};
use super::scenario::*;

/// An envelope as the oracles see it.
#[derive(Debug, Clone, PartialEq, Eq, PartialOrd, Ord)]
pub struct Env {
    pub kind: Kind,
    pub node: String,
    pub lane: String,
    /// `None` for the kinds without a body and for an `unlinked` without one.
    pub body: Option<String>,
}

impl Env {
    pub fn show(&self) -> String {
        format!("{}({:?},{:?}){}", self.kind.tag(), self.node, self.lane, match &self.body {
            Some(b) => format!(" {:?}", b),
            None => String::new(),
        })
    }
}

/// What the receiving side must see for a body that was sent. The only re-formatting the product
/// performs legitimately: the header peeler skips blanks (spaces, tabs) between the header and the
/// body (`preceded(space0, rest)`), and the byte-channel encoding cannot tell an `unlinked` with an
/// empty body from one without a body. Everything else is compared exactly.
pub fn expected_body(kind: Kind, body: Option<&str>) -> Option<String> {
    let trimmed = body.map(|b| b.trim_start_matches([' ', '\t']).to_string());
    match kind {
        Kind::Command | Kind::Event => Some(trimmed.unwrap_or_default()),
        Kind::Unlinked => trimmed.filter(|b| !b.is_empty()),
        _ => None,
    }
}

#[derive(Debug, Clone)]
pub struct Sent {
    pub start: u64,
    pub end: u64,
    pub src: String,
    /// Agents: the generation (route instance) the envelope was written to; 0 otherwise.
    pub gen: u32,
    pub op: usize,
    /// As expected at the receiver (see `expected_body`).
    pub env: Env,
    pub ok: bool,
}

#[derive(Debug, Clone)]
pub struct Recv {
    pub step: u64,
    pub ep: String,
    pub gen: u32,
    pub env: Env,
}

#[derive(Debug, Clone)]
pub struct Resolve {
    pub step: u64,
    pub node: String,
    pub lane: String,
    pub agent: Option<(u32, u32)>,
}

#[derive(Debug, Default)]
pub struct Hist {
    pub sent: Vec<Sent>,
    pub recv: Vec<Recv>,
    /// (step, downlink, attached ok)
    pub attach: Vec<(u64, u32, bool)>,
    pub resolves: Vec<Resolve>,
    pub marks: Vec<(u64, String)>,
    /// (step, endpoint, how its read half ended)
    pub ends: Vec<(u64, String, String)>,
    /// Frames other than text seen by the scripted peer, and how its reading ended.
    pub peer_ctl: Vec<(u64, String)>,
    /// (step, endpoint, what) for anything an endpoint could not decode.
    pub undecodable: Vec<(u64, String, String)>,
    /// (step, op index, class) of the frames the peer injected that are not valid envelopes.
    pub injected: Vec<(u64, usize, String)>,
}

type SharedHist = Rc<RefCell<Hist>>;

#[derive(Default)]
struct Flags {
    drain: bool,
}

type SpawnQueue = Rc<RefCell<Vec<(String, Pin<Box<dyn Future<Output = ()>>>)>>>;

struct Yield(bool);
impl Future for Yield {
    type Output = ();
    fn poll(mut self: Pin<&mut Self>, cx: &mut Context<'_>) -> Poll<()> {
        if self.0 {
            Poll::Ready(())
        } else {
            self.0 = true;
            cx.waker().wake_by_ref();
            Poll::Pending
        }
    }
}

async fn yield_n(n: u32) {
    for _ in 0..n {
        Yield(false).await;
    }
}

struct Forever;
impl Future for Forever {
    type Output = ();
    fn poll(self: Pin<&mut Self>, _cx: &mut Context<'_>) -> Poll<()> {
        Poll::Pending
    }
}

type ReaderCell = Rc<RefCell<Option<ByteReader>>>;

enum Chunk {
    Data,
    Eof,
    Dropped,
    Failed(String),
}

/// Throttled reader: at most one chunk of drawn size per poll, drawn stalls (until the drain phase).
struct Throttle {
    cell: ReaderCell,
    rng: Rng,
    cfg: ReadCfg,
    stalled: u32,
    flags: Rc<RefCell<Flags>>,
}

impl Throttle {
    fn poll_chunk(&mut self, cx: &mut Context<'_>, out: &mut BytesMut) -> Poll<Chunk> {
        let drain = self.flags.borrow().drain;
        if self.cell.borrow().is_none() {
            return Poll::Ready(Chunk::Dropped);
        }
        if !drain && self.cfg.stall_pm >= 1000 {
            // A reader that never reads (until the drain phase wakes every node): parked, not spinning.
            return Poll::Pending;
        }
        if !drain {
            if self.stalled > 0 {
                self.stalled -= 1;
                cx.waker().wake_by_ref();
                return Poll::Pending;
            }
            if self.cfg.stall_pm > 0 && self.rng.below(1000) < self.cfg.stall_pm as u64 {
                self.stalled = self.rng.range(1, self.cfg.stall_max.max(1) as u64) as u32;
                cx.waker().wake_by_ref();
                return Poll::Pending;
            }
        }
        let n = if drain { 4096 } else { self.rng.range(1, self.cfg.max_chunk.max(1) as u64) as usize }.min(4096);
        let mut scratch = [0u8; 4096];
        let mut rb = ReadBuf::new(&mut scratch[..n]);
        let mut cell = self.cell.borrow_mut();
        let Some(reader) = cell.as_mut() else {
            return Poll::Ready(Chunk::Dropped);
        };
        match Pin::new(reader).poll_read(cx, &mut rb) {
            Poll::Pending => Poll::Pending,
            Poll::Ready(Err(e)) => Poll::Ready(Chunk::Failed(e.kind().to_string())),
            Poll::Ready(Ok(())) => {
                if rb.filled().is_empty() {
                    Poll::Ready(Chunk::Eof)
                } else {
                    out.extend_from_slice(rb.filled());
                    Poll::Ready(Chunk::Data)
                }
            }
        }
    }
}

fn text_of(bytes: &[u8]) -> Result<String, String> {
    std::str::from_utf8(bytes).map(|s| s.to_string()).map_err(|_| format!("body is not UTF-8: {:?}", bytes))
}

/// Reads what the socket task delivers to an agent (`requests`) or a downlink with the product's raw decoders.
async fn endpoint_reader(ep: String, gen: u32, requests: bool, mut src: Throttle, hist: SharedHist) {
    let mut buf = BytesMut::new();
    loop {
        let c = std::future::poll_fn(|cx| src.poll_chunk(cx, &mut buf)).await;
        match c {
            Chunk::Data => {}
            Chunk::Eof => {
                hist.borrow_mut().ends.push((now_step(), ep.clone(), format!("eof leftover={}", buf.len())));
                return;
            }
            Chunk::Dropped => {
                hist.borrow_mut().ends.push((now_step(), ep.clone(), "dropped".into()));
                return;
            }
            Chunk::Failed(e) => {
                hist.borrow_mut().ends.push((now_step(), ep.clone(), format!("io-error {e}")));
                return;
            }
        }
        loop {
            let env = if requests {
                match RawRequestMessageDecoder.decode(&mut buf) {
                    Ok(None) => break,
                    Err(e) => {
                        hist.borrow_mut().undecodable.push((now_step(), ep.clone(), format!("request frame: {e}")));
                        return;
                    }
                    Ok(Some(RequestMessage { path, envelope, .. })) => {
                        let (kind, body) = match envelope {
                            Operation::Link => (Kind::Link, None),
                            Operation::Sync => (Kind::Sync, None),
                            Operation::Unlink => (Kind::Unlink, None),
                            Operation::Command(b) => (Kind::Command, Some(text_of(b.as_ref()))),
                        };
                        (kind, path.node.to_string(), path.lane.to_string(), body)
                    }
                }
            } else {
                match RawResponseMessageDecoder.decode(&mut buf) {
                    Ok(None) => break,
                    Err(e) => {
                        hist.borrow_mut().undecodable.push((now_step(), ep.clone(), format!("response frame: {e}")));
                        return;
                    }
                    Ok(Some(ResponseMessage { path, envelope, .. })) => {
                        let (kind, body) = match envelope {
                            Notification::Linked => (Kind::Linked, None),
                            Notification::Synced => (Kind::Synced, None),
                            Notification::Unlinked(b) => (Kind::Unlinked, b.map(|b| text_of(b.as_ref()))),
                            Notification::Event(b) => (Kind::Event, Some(text_of(b.as_ref()))),
                        };
                        (kind, path.node.to_string(), path.lane.to_string(), body)
                    }
                }
            };
            let (kind, node, lane, body) = env;
            let body = match body {
                None => None,
                Some(Ok(b)) => Some(b),
                Some(Err(e)) => {
                    hist.borrow_mut().undecodable.push((now_step(), ep.clone(), e));
                    continue;
                }
            };
            hist.borrow_mut().recv.push(Recv { step: now_step(), ep: ep.clone(), gen, env: Env { kind, node, lane, body } });
        }
        Yield(false).await;
    }
}

fn cap(n: u32) -> NonZeroUsize {
    NonZeroUsize::new(n.max(1) as usize).unwrap()
}

async fn downlink(d: Downlink, attach_tx: mpsc::Sender<AttachClient>, hist: SharedHist, flags: Rc<RefCell<Flags>>, spawn: SpawnQueue) {
    yield_n(d.attach_delay).await;
    let name = format!("d{}", d.id);
    let (to_dl_tx, to_dl_rx) = byte_channel(cap(d.in_cap));
    let (from_dl_tx, from_dl_rx) = byte_channel(cap(d.out_cap));
    let (done_tx, done_rx) = oneshot::channel();
    let id = Uuid::from_u128(1000 + d.id as u128);
    let path = RelativeAddress::text(&d.node, &d.lane);
    let mut to_dl_rx = Some(to_dl_rx);
    let req = if d.oneway {
        drop(to_dl_tx);
        to_dl_rx = None;
        AttachClient::OneWay { agent_id: id, path: Some(path), receiver: from_dl_rx, done: done_tx }
    } else {
        AttachClient::AttachDownlink { downlink_id: id, path, sender: to_dl_tx, receiver: from_dl_rx, done: done_tx }
    };
    if attach_tx.send(req).await.is_err() {
        hist.borrow_mut().attach.push((now_step(), d.id, false));
        return;
    }
    drop(attach_tx);
    match done_rx.await {
        Ok(Ok(())) => hist.borrow_mut().attach.push((now_step(), d.id, true)),
        _ => {
            hist.borrow_mut().attach.push((now_step(), d.id, false));
            return;
        }
    }
    let cell: ReaderCell = Rc::new(RefCell::new(to_dl_rx));
    if !d.oneway {
        let src = Throttle { cell: cell.clone(), rng: Rng::new(d.chunk_seed), cfg: d.read.clone(), stalled: 0, flags: flags.clone() };
        spawn.borrow_mut().push((format!("{name}.r"), Box::pin(endpoint_reader(name.clone(), 0, false, src, hist.clone()))));
    }
    let mut writer = Some(from_dl_tx);
    let mut buf = BytesMut::new();
    for (idx, op) in d.ops.iter().enumerate() {
        match op {
            DlOp::Pause(n) => yield_n(*n).await,
            DlOp::DropReader => {
                cell.borrow_mut().take();
                hist.borrow_mut().marks.push((now_step(), format!("{name} dropped its reader")));
            }
            DlOp::Detach => {
                writer = None;
                cell.borrow_mut().take();
                hist.borrow_mut().marks.push((now_step(), format!("{name} detached")));
                break;
            }
            DlOp::Send { kind, body } => {
                let start = now_step();
                buf.clear();
                let path = RelativeAddress::new(d.node.as_str(), d.lane.as_str());
                let msg: RequestMessage<&str, &[u8]> = match kind {
                    Kind::Link => RequestMessage::link(id, path),
                    Kind::Sync => RequestMessage::sync(id, path),
                    Kind::Unlink => RequestMessage::unlink(id, path),
                    _ => RequestMessage::command(id, path, body.as_bytes()),
                };
                RawRequestMessageEncoder.encode(msg, &mut buf).expect("encode");
                let mut ok = false;
                if let Some(w) = writer.as_mut() {
                    if w.write_all(&buf).await.is_ok() {
                        ok = true;
                    } else {
                        writer = None;
                    }
                }
                let env = Env { kind: *kind, node: d.node.clone(), lane: d.lane.clone(), body: expected_body(*kind, Some(body.as_str())) };
                hist.borrow_mut().sent.push(Sent { start, end: now_step(), src: name.clone(), gen: 0, op: idx, env, ok });
            }
        }
    }
    // Keep the write half open (a downlink that has nothing more to say stays attached).
    if writer.is_some() {
        Forever.await;
    }
    drop(writer);
}

#[derive(Default)]
struct AgentSlot {
    fresh: Option<(ByteWriter, ReaderCell, u32)>,
    waker: Option<Waker>,
}

async fn acquire(slot: &Rc<RefCell<AgentSlot>>) -> (ByteWriter, ReaderCell, u32) {
    std::future::poll_fn(|cx| {
        let mut s = slot.borrow_mut();
        match s.fresh.take() {
            Some(f) => Poll::Ready(f),
            None => {
                s.waker = Some(cx.waker().clone());
                Poll::Pending
            }
        }
    })
    .await
}

async fn agent_writer(a: Agent, slot: Rc<RefCell<AgentSlot>>, hist: SharedHist) {
    let name = format!("a{}", a.id);
    let id = Uuid::from_u128(2000 + a.id as u128);
    let mut cur: Option<(ByteWriter, ReaderCell, u32)> = None;
    let mut buf = BytesMut::new();
    for (idx, op) in a.ops.iter().enumerate() {
        match op {
            AgOp::Pause(n) => yield_n(*n).await,
            AgOp::Stop => {
                if cur.is_none() {
                    cur = Some(acquire(&slot).await);
                }
                let (w, cell, gen) = cur.take().unwrap();
                drop(w);
                cell.borrow_mut().take();
                hist.borrow_mut().marks.push((now_step(), format!("{name} stopped gen={gen}")));
            }
            AgOp::Send { kind, lane, body } => {
                let start = now_step();
                buf.clear();
                let path = RelativeAddress::new(a.node.as_str(), lane.as_str());
                let msg: ResponseMessage<&str, &[u8], &[u8]> = match kind {
                    Kind::Linked => ResponseMessage::linked(id, path),
                    Kind::Synced => ResponseMessage::synced(id, path),
                    Kind::Unlinked => ResponseMessage::unlinked(id, path, body.as_ref().map(|b| b.as_bytes())),
                    _ => ResponseMessage::event(id, path, body.as_deref().unwrap_or("").as_bytes()),
                };
                RawResponseMessageEncoder.encode(msg, &mut buf).expect("encode");
                let mut ok = false;
                let mut used_gen = 0;
                // An agent can only talk to a remote that has opened a route to it.
                loop {
                    if cur.is_none() {
                        cur = Some(acquire(&slot).await);
                    }
                    let (w, _, g) = cur.as_mut().unwrap();
                    used_gen = *g;
                    if w.write_all(&buf).await.is_ok() {
                        ok = true;
                        break;
                    }
                    // The route is gone (the socket task dropped its half); retry only on a newer one.
                    cur = None;
                    if slot.borrow().fresh.is_none() {
                        break;
                    }
                }
                let env = Env { kind: *kind, node: a.node.clone(), lane: lane.clone(), body: expected_body(*kind, body.as_deref()) };
                hist.borrow_mut().sent.push(Sent { start, end: now_step(), src: name.clone(), gen: used_gen, op: idx, env, ok });
            }
        }
    }
    if cur.is_some() {
        Forever.await;
    }
    drop(cur);
}

/// Stands for the server's FindNode handling (swimos_server_app `ServerEvent::FindRoute` +
/// `attach_agent`): a known node is answered with a fresh pair of byte channels connected to the
/// agent, an unknown one with `NoSuchAgent`.
async fn resolver(
    agents: Vec<Agent>,
    mut find_rx: mpsc::Receiver<FindNode>,
    slots: Vec<Rc<RefCell<AgentSlot>>>,
    hist: SharedHist,
    flags: Rc<RefCell<Flags>>,
    spawn: SpawnQueue,
) {
    let mut refused: Vec<u32> = vec![0; agents.len()];
    let mut gens: Vec<u32> = vec![0; agents.len()];
    while let Some(FindNode { node, lane, request }) = find_rx.recv().await {
        let lane_s = lane.as_ref().map(|l| l.to_string()).unwrap_or_default();
        let promise = match request {
            NodeConnectionRequest::Warp { promise, .. } => promise,
            NodeConnectionRequest::Http { .. } => {
                hist.borrow_mut().marks.push((now_step(), "resolver: unexpected http request".into()));
                continue;
            }
        };
        let pos = agents.iter().position(|a| a.node == node.as_str());
        match pos {
            Some(i) if refused[i] >= agents[i].refuse_first => {
                let a = &agents[i];
                yield_n(a.resolve_delay).await;
                let (in_tx, in_rx) = byte_channel(cap(a.in_cap));
                let (out_tx, out_rx) = byte_channel(cap(a.out_cap));
                gens[i] += 1;
                let gen = gens[i];
                let cell: ReaderCell = Rc::new(RefCell::new(Some(in_rx)));
                let src = Throttle { cell: cell.clone(), rng: Rng::new(a.chunk_seed ^ gen as u64), cfg: a.read.clone(), stalled: 0, flags: flags.clone() };
                spawn.borrow_mut().push((format!("a{}.g{gen}.r", a.id), Box::pin(endpoint_reader(format!("a{}", a.id), gen, true, src, hist.clone()))));
                {
                    let mut s = slots[i].borrow_mut();
                    if s.fresh.is_some() {
                        hist.borrow_mut().marks.push((now_step(), format!("a{} route replaced before use", a.id)));
                    }
                    s.fresh = Some((out_tx, cell, gen));
                    if let Some(w) = s.waker.take() {
                        w.wake();
                    }
                }
                hist.borrow_mut().resolves.push(Resolve { step: now_step(), node: node.to_string(), lane: lane_s, agent: Some((a.id, gen)) });
                if promise.send(Ok((in_tx, out_rx))).is_err() {
                    hist.borrow_mut().marks.push((now_step(), "resolver: promise dropped".into()));
                }
            }
            other => {
                if let Some(i) = other {
                    refused[i] += 1;
                    yield_n(agents[i].resolve_delay).await;
                }
                hist.borrow_mut().resolves.push(Resolve { step: now_step(), node: node.to_string(), lane: lane_s, agent: None });
                let _ = promise.send(Err(AgentResolutionError::NotFound(NoSuchAgent { node, lane })));
            }
        }
    }
}

// ------------------------------------------------------------------------------------------------
// Scripted web socket peer.

fn bare_ok(s: &str) -> bool {
    let mut cs = s.chars();
    match cs.next() {
        Some(c) if c.is_ascii_alphabetic() || c == '_' => {}
        _ => return false,
    }
    s != "true" && s != "false" && cs.all(|c| c.is_ascii_alphanumeric() || c == '_' || c == '-')
}

fn lit(s: &str, quote_always: bool, uescape: bool) -> String {
    if bare_ok(s) && !quote_always && !uescape {
        return s.to_string();
    }
    let mut o = String::from("\"");
    for c in s.chars() {
        match c {
            '"' => o.push_str("\\\""),
            '\\' => o.push_str("\\\\"),
            '\n' => o.push_str("\\n"),
            '\r' => o.push_str("\\r"),
            '\t' => o.push_str("\\t"),
            '\u{8}' => o.push_str("\\b"),
            '\u{c}' => o.push_str("\\f"),
            c if (c as u32) < 0x20 => o.push_str(&format!("\\u{:04x}", c as u32)),
            c if uescape && (c as u32) < 0x10000 => o.push_str(&format!("\\u{:04X}", c as u32)),
            c => o.push(c),
        }
    }
    o.push('"');
    o
}

/// The harness's own envelope writer (independent of the product's `ReconEncoder`), in several
/// equivalent Recon formattings selected by the bits of `style`.
pub fn peer_text(kind: Kind, node: &str, lane: &str, body: &str, style: u32) -> String {
    let quote = style & 1 != 0;
    let spaces = style & 2 != 0;
    let lane_first = style & 4 != 0;
    let rate = style & 8 != 0 && matches!(kind, Kind::Link | Kind::Sync | Kind::Linked);
    let uesc = style & 16 != 0;
    let wide = style & 32 != 0;
    let colon = if spaces { " : " } else { ":" };
    let comma = if spaces { " , " } else { "," };
    let mut slots = vec![format!("node{colon}{}", lit(node, quote, uesc)), format!("lane{colon}{}", lit(lane, quote, false))];
    if lane_first {
        slots.reverse();
    }
    if rate {
        slots.push(format!("rate{colon}0.5"));
        slots.push(format!("prio{colon}2"));
    }
    let mut o = format!("@{}(", kind.tag());
    if spaces {
        o.push(' ');
    }
    o.push_str(&slots.join(comma));
    if spaces {
        o.push(' ');
    }
    o.push(')');
    if !body.is_empty() {
        if wide {
            o.push_str("  ");
        } else if !body.starts_with('@') {
            o.push(' ');
        }
        o.push_str(body);
    }
    o
}

/// Reads a text frame the way the product does (`peel_envelope_header_str`).
pub fn parse_frame(text: &str) -> Result<Env, String> {
    let opt = |b: &str| if b.is_empty() { None } else { Some(b.to_string()) };
    match peel_envelope_header_str(text) {
        Err(e) => Err(format!("{e}")),
        Ok(env) => Ok(match env {
            RawEnvelope::Link { node_uri, lane_uri, body, .. } => Env { kind: Kind::Link, node: node_uri.to_string(), lane: lane_uri.to_string(), body: opt(&body) },
            RawEnvelope::Sync { node_uri, lane_uri, body, .. } => Env { kind: Kind::Sync, node: node_uri.to_string(), lane: lane_uri.to_string(), body: opt(&body) },
            RawEnvelope::Unlink { node_uri, lane_uri, body } => Env { kind: Kind::Unlink, node: node_uri.to_string(), lane: lane_uri.to_string(), body: opt(&body) },
            RawEnvelope::Command { node_uri, lane_uri, body } => Env { kind: Kind::Command, node: node_uri.to_string(), lane: lane_uri.to_string(), body: Some(body.to_string()) },
            RawEnvelope::Linked { node_uri, lane_uri, body, .. } => Env { kind: Kind::Linked, node: node_uri.to_string(), lane: lane_uri.to_string(), body: opt(&body) },
            RawEnvelope::Synced { node_uri, lane_uri, body } => Env { kind: Kind::Synced, node: node_uri.to_string(), lane: lane_uri.to_string(), body: opt(&body) },
            RawEnvelope::Unlinked { node_uri, lane_uri, body } => Env { kind: Kind::Unlinked, node: node_uri.to_string(), lane: lane_uri.to_string(), body: opt(&body) },
            RawEnvelope::Event { node_uri, lane_uri, body } => Env { kind: Kind::Event, node: node_uri.to_string(), lane: lane_uri.to_string(), body: Some(body.to_string()) },
            RawEnvelope::Auth(_) | RawEnvelope::DeAuth(_) => return Err("auth/deauth".into()),
        }),
    }
}

/// One web socket frame written by hand (RFC 6455): clients mask their payload.
fn raw_frame(fin: bool, opcode: u8, payload: &[u8], mask: bool) -> Vec<u8> {
    let mut f = vec![(if fin { 0x80 } else { 0 }) | opcode];
    let m = if mask { 0x80u8 } else { 0 };
    if payload.len() < 126 {
        f.push(m | payload.len() as u8);
    } else if payload.len() <= u16::MAX as usize {
        f.push(m | 126);
        f.extend_from_slice(&(payload.len() as u16).to_be_bytes());
    } else {
        f.push(m | 127);
        f.extend_from_slice(&(payload.len() as u64).to_be_bytes());
    }
    if mask {
        let key = [0x11u8, 0x22, 0x33, 0x44];
        f.extend_from_slice(&key);
        f.extend(payload.iter().enumerate().map(|(i, b)| b ^ key[i % 4]));
    } else {
        f.extend_from_slice(payload);
    }
    f
}

async fn peer_writer(ops: Vec<PeerOp>, mut tx: ratchet::Sender<PipeEnd, NoExtEncoder>, hist: SharedHist, pipe: PipeHandle, out_dir: usize, is_client: bool) {
    for (idx, op) in ops.iter().enumerate() {
        let start = now_step();
        match op {
            PeerOp::Pause(n) => yield_n(*n).await,
            PeerOp::Env { kind, node, lane, body, style } => {
                let text = peer_text(*kind, node, lane, body, *style);
                let ok = if *style & 64 != 0 && text.len() >= 2 {
                    // The envelope as two fragments (a text frame without FIN and a continuation frame), optionally
                    // with a ping between them, which the protocol allows. Written by hand in one piece.
                    let mut cut = ((text.len() as u64 * ((*style >> 8) & 0xff) as u64) / 256).clamp(1, text.len() as u64 - 1) as usize;
                    while !text.is_char_boundary(cut) {
                        cut -= 1;
                    }
                    if cut == 0 {
                        tx.write_text(&text).await.is_ok()
                    } else {
                        let _ = tx.flush().await;
                        let mut bytes = raw_frame(false, 0x1, &text.as_bytes()[..cut], is_client);
                        if *style & 128 != 0 {
                            bytes.extend(raw_frame(true, 0x9, b"mid", is_client));
                        }
                        bytes.extend(raw_frame(true, 0x0, &text.as_bytes()[cut..], is_client));
                        hist.borrow_mut().marks.push((now_step(), format!("peer fragmented[{idx}] cut={cut} ping={}", *style & 128 != 0)));
                        pipe.inject(out_dir, &bytes)
                    }
                } else {
                    tx.write_text(&text).await.is_ok()
                };
                let env = Env { kind: *kind, node: node.clone(), lane: lane.clone(), body: expected_body(*kind, Some(body.as_str())) };
                let mut h = hist.borrow_mut();
                h.marks.push((now_step(), format!("peer text[{idx}] {:?}", text)));
                h.sent.push(Sent { start, end: now_step(), src: "peer".into(), gen: 0, op: idx, env, ok });
            }
            PeerOp::Raw { text, class } => {
                let ok = tx.write_text(text).await.is_ok();
                let mut h = hist.borrow_mut();
                h.marks.push((now_step(), format!("peer raw[{idx}] {class} ok={ok} {:?}", text)));
                if ok {
                    h.injected.push((now_step(), idx, class.clone()));
                }
            }
            PeerOp::BadUtf8 => {
                let ok = tx.write([0x40u8, 0xff, 0xfe, 0x28, 0xc3], PayloadType::Text).await.is_ok();
                let mut h = hist.borrow_mut();
                h.marks.push((now_step(), format!("peer bad-utf8[{idx}] ok={ok}")));
                if ok {
                    h.injected.push((now_step(), idx, "bad_utf8".into()));
                }
            }
            PeerOp::Binary(n) => {
                let data = vec![0x5au8; *n as usize];
                let ok = tx.write_binary(&data).await.is_ok();
                let mut h = hist.borrow_mut();
                h.marks.push((now_step(), format!("peer binary[{idx}] len={n} ok={ok}")));
                if ok {
                    h.injected.push((now_step(), idx, "binary".into()));
                }
            }
            PeerOp::Ping(n) => {
                let data = vec![0x70u8; *n as usize];
                let ok = tx.write_ping(&data).await.is_ok();
                hist.borrow_mut().marks.push((now_step(), format!("peer ping[{idx}] len={n} ok={ok}")));
            }
            PeerOp::Close => {
                let ok = tx.close(CloseReason::new(CloseCode::Normal, Some("bye".into()))).await.is_ok();
                let mut h = hist.borrow_mut();
                h.marks.push((now_step(), format!("peer close[{idx}] ok={ok}")));
                if ok {
                    h.injected.push((now_step(), idx, "close".into()));
                }
            }
        }
    }
    Forever.await;
    drop(tx);
}

async fn peer_reader(mut rx: ratchet::Receiver<PipeEnd, NoExtDecoder>, stall: u32, seed: u64, hist: SharedHist, flags: Rc<RefCell<Flags>>) {
    let mut rng = Rng::new(seed);
    let mut buf = BytesMut::new();
    loop {
        if stall > 0 && !flags.borrow().drain {
            yield_n(rng.range(0, stall as u64) as u32).await;
        }
        buf.clear();
        match rx.read(&mut buf).await {
            Ok(Message::Text) => match std::str::from_utf8(buf.as_ref()) {
                Err(_) => hist.borrow_mut().undecodable.push((now_step(), "peer".into(), "text frame is not UTF-8".into())),
                Ok(text) => match parse_frame(text) {
                    Ok(env) => {
                        let mut h = hist.borrow_mut();
                        h.marks.push((now_step(), format!("peer got {:?}", text)));
                        h.recv.push(Recv { step: now_step(), ep: "peer".into(), gen: 0, env });
                    }
                    Err(e) => hist.borrow_mut().undecodable.push((now_step(), "peer".into(), format!("frame {:?}: {e}", text))),
                },
            },
            Ok(Message::Binary) => hist.borrow_mut().peer_ctl.push((now_step(), format!("binary len={}", buf.len()))),
            Ok(Message::Ping(p)) => hist.borrow_mut().peer_ctl.push((now_step(), format!("ping len={}", p.len()))),
            Ok(Message::Pong(p)) => hist.borrow_mut().peer_ctl.push((now_step(), format!("pong len={}", p.len()))),
            Ok(Message::Close(reason)) => {
                let r = match reason {
                    Some(CloseReason { code, description }) => format!("close code={:?} desc={:?}", code, description),
                    None => "close (no reason)".into(),
                };
                hist.borrow_mut().peer_ctl.push((now_step(), r));
                break;
            }
            Err(e) => {
                let class = if e.is_io() {
                    "io"
                } else if e.is_protocol() {
                    "protocol"
                } else if e.is_close() {
                    "close"
                } else if e.is_encoding() {
                    "encoding"
                } else {
                    "other"
                };
                hist.borrow_mut().peer_ctl.push((now_step(), format!("read-error {class}")));
                break;
            }
        }
    }
    // Keep the half (dropping it would change nothing for the peer of a closed socket).
    Forever.await;
    drop(rx);
}

// ------------------------------------------------------------------------------------------------

pub struct Record {
    pub sc: SockScenario,
    pub hist: Hist,
    pub cut_step: Option<u64>,
    pub quiescent: Option<u64>,
    pub stop_step: Option<u64>,
    pub task_s_done: Option<u64>,
    pub task_c_done: Option<u64>,
    pub steps: u64,
    pub decisions: u64,
    pub sim_ms: u64,
    pub step_limit: bool,
    pub panics: Vec<NodePanic>,
    pub time_advances: u64,
    pub pipe: PipeStats,
}

pub async fn run(sc: &SockScenario) -> Record {
    let t0 = tokio::time::Instant::now();
    let policy = match sc.policy {
        0 => Policy::Lowest,
        1 => Policy::RoundRobin,
        2 => Policy::Pct { change_points: 3 },
        _ => Policy::Random,
    };
    // Diagnostics only (never part of the recorded history): VERIF_TRACE_POLLS=1 prints every poll.
    let trace = std::env::var("VERIF_TRACE_POLLS").is_ok();
    let mut exec = Exec::new(Scheduler::new(Rng::new(sc.sched_seed), policy, 3000), EventLog::new(trace));
    exec.trace_polls = trace;
    let hist: SharedHist = Rc::new(RefCell::new(Hist::default()));
    let flags = Rc::new(RefCell::new(Flags::default()));
    let spawn: SpawnQueue = Rc::new(RefCell::new(vec![]));

    // One-sided topologies: the scripted peer's own writes never block. ratchet's split receiver
    // needs the (shared) writer to handle a pong / ping, so a peer whose writer is blocked on a full
    // pipe stops reading; together with a real task whose reading half waits for its writing half
    // that closes a backpressure cycle that has nothing to do with C11 (see the report).
    let unbounded = 1usize << 30;
    let (cap_ab, cap_ba) = match sc.topo {
        Topo::Pair => (sc.pipe.cap_ab as usize, sc.pipe.cap_ba as usize),
        Topo::PeerIsClient => (sc.pipe.cap_ab as usize, unbounded),
        Topo::PeerIsServer => (unbounded, sc.pipe.cap_ba as usize),
    };
    let (end_a, end_b, pipe) = sim_duplex(cap_ab, cap_ba, sc.pipe.chunk_max as usize, sc.pipe.cut_eof, Rng::new(sc.pipe.seed));
    let config = WebSocketConfig::default();
    let close_timeout = Duration::from_secs(5);
    let reg = cap(sc.reg_buffer);

    let s_done: Rc<RefCell<Option<u64>>> = Rc::new(RefCell::new(None));
    let c_done: Rc<RefCell<Option<u64>>> = Rc::new(RefCell::new(None));
    let mut stop_s = None;
    let mut stop_c = None;
    let mut keep_attach_s = None;
    let mut node_s = None;
    let mut node_c = None;
    let mut end_a = Some(end_a);
    let mut end_b = Some(end_b);

    // Server side: real task + resolver + agents.
    if sc.topo != Topo::PeerIsServer {
        let ws = WebSocket::from_upgraded(config, end_a.take().unwrap(), Some(NoExt), BytesMut::new(), Role::Server);
        let (attach_tx, attach_rx) = mpsc::channel::<AttachClient>(sc.attach_cap.max(1) as usize);
        let (find_tx, find_rx) = mpsc::channel::<FindNode>(sc.find_cap.max(1) as usize);
        let (stop_tx, stop_rx) = trigger::trigger();
        let task = RemoteTask::new(Uuid::from_u128(1), stop_rx, ws, attach_rx, Some(find_tx), reg, close_timeout);
        let done = s_done.clone();
        node_s = Some(exec.spawn("taskS", sc.budget_s as usize, async move {
            task.run().await;
            *done.borrow_mut() = Some(now_step());
        }));
        stop_s = Some(stop_tx);
        keep_attach_s = Some(attach_tx);
        let slots: Vec<Rc<RefCell<AgentSlot>>> = sc.agents.iter().map(|_| Rc::new(RefCell::new(AgentSlot::default()))).collect();
        exec.spawn("resolver", 64, resolver(sc.agents.clone(), find_rx, slots.clone(), hist.clone(), flags.clone(), spawn.clone()));
        for (a, slot) in sc.agents.iter().zip(slots.iter()) {
            exec.spawn(&format!("a{}.w", a.id), 64, agent_writer(a.clone(), slot.clone(), hist.clone()));
        }
    }
    // Client side: real task + downlinks.
    let mut keep_attach_c = None;
    if sc.topo != Topo::PeerIsClient {
        let ws = WebSocket::from_upgraded(config, end_b.take().unwrap(), Some(NoExt), BytesMut::new(), Role::Client);
        let (attach_tx, attach_rx) = mpsc::channel::<AttachClient>(sc.attach_cap.max(1) as usize);
        let (stop_tx, stop_rx) = trigger::trigger();
        let task = RemoteTask::new(Uuid::from_u128(2), stop_rx, ws, attach_rx, None, reg, close_timeout);
        let done = c_done.clone();
        node_c = Some(exec.spawn("taskC", sc.budget_c as usize, async move {
            task.run().await;
            *done.borrow_mut() = Some(now_step());
        }));
        stop_c = Some(stop_tx);
        for d in sc.downlinks.iter() {
            exec.spawn(&format!("d{}.w", d.id), 64, downlink(d.clone(), attach_tx.clone(), hist.clone(), flags.clone(), spawn.clone()));
        }
        keep_attach_c = Some(attach_tx);
    }
    // Scripted peer.
    if sc.topo != Topo::Pair {
        let (end, role) = if sc.topo == Topo::PeerIsClient { (end_b.take().unwrap(), Role::Client) } else { (end_a.take().unwrap(), Role::Server) };
        let ws = WebSocket::from_upgraded(config, end, Some(NoExt), BytesMut::new(), role);
        match ws.split() {
            Ok((tx, rx)) => {
                let out_dir = if sc.topo == Topo::PeerIsClient { 1 } else { 0 };
                exec.spawn("peer.w", 64, peer_writer(sc.peer.clone(), tx, hist.clone(), pipe.clone(), out_dir, sc.topo == Topo::PeerIsClient));
                exec.spawn("peer.r", 64, peer_reader(rx, sc.peer_read_stall, sc.pipe.seed ^ 0x77, hist.clone(), flags.clone()));
            }
            Err(_) => hist.borrow_mut().marks.push((0, "peer split failed".into())),
        }
    }

    let mut rec = Record {
        sc: sc.clone(),
        hist: Hist::default(),
        cut_step: None,
        quiescent: None,
        stop_step: None,
        task_s_done: None,
        task_c_done: None,
        steps: 0,
        decisions: 0,
        sim_ms: 0,
        step_limit: false,
        panics: vec![],
        time_advances: 0,
        pipe: pipe.stats(),
    };

    // Phases: 0 main, 1 draining (readers unthrottled), 2 quiescent -> stop, 3 stopping.
    let mut phase = 0;
    'run: loop {
        loop {
            if exec.steps >= sc.max_steps {
                rec.step_limit = true;
                break 'run;
            }
            if let Some(at) = sc.pipe.cut_at {
                if rec.cut_step.is_none() && exec.steps >= at && phase == 0 {
                    pipe.cut();
                    rec.cut_step = Some(exec.steps);
                    hist.borrow_mut().marks.push((exec.steps, "socket cut".into()));
                }
            }
            if !exec.step() {
                break;
            }
            for (name, fut) in spawn.borrow_mut().drain(..) {
                exec.spawn(&name, 64, fut);
            }
            tokio::task::yield_now().await;
        }
        for (name, fut) in spawn.borrow_mut().drain(..) {
            exec.spawn(&name, 64, fut);
        }
        if exec.has_ready() {
            continue;
        }
        let tasks_done = node_s.map(|n| exec.is_done(n)).unwrap_or(true) && node_c.map(|n| exec.is_done(n)).unwrap_or(true);
        match phase {
            0 => {
                flags.borrow_mut().drain = true;
                hist.borrow_mut().marks.push((exec.steps, "drain".into()));
                // Only harness nodes are woken: a spurious poll of a socket task would hide a wake-up it lost.
                let product: Vec<_> = node_s.into_iter().chain(node_c).collect();
                exec.wake_all_except(&product);
                phase = 1;
            }
            1 => {
                rec.quiescent = Some(exec.steps);
                hist.borrow_mut().marks.push((exec.steps, "quiescent".into()));
                rec.stop_step = Some(exec.steps);
                if let Some(tx) = stop_s.take() {
                    tx.trigger();
                }
                if let Some(tx) = stop_c.take() {
                    tx.trigger();
                }
                keep_attach_s = None;
                keep_attach_c = None;
                phase = 3;
            }
            _ => {
                if tasks_done {
                    break 'run;
                }
                rec.time_advances += 1;
                if rec.time_advances > 24 || !exec.wait_for_wake(Duration::from_secs(6)).await {
                    break 'run;
                }
            }
        }
    }
    let _ = (keep_attach_s, keep_attach_c);
    rec.task_s_done = *s_done.borrow();
    rec.task_c_done = *c_done.borrow();
    rec.steps = exec.steps;
    rec.decisions = exec.decisions;
    rec.sim_ms = (tokio::time::Instant::now() - t0).as_millis() as u64;
    rec.panics = exec.panics.clone();
    rec.pipe = pipe.stats();
    if trace {
        for l in exec.log.lines() {
            eprintln!("{l}");
        }
        eprintln!("live nodes: {:?}", exec.live_nodes());
    }
    drop(exec);
    rec.hist = std::mem::take(&mut *hist.borrow_mut());
    rec
}

pub fn build_log(rec: &Record, keep: bool) -> EventLog {
    let mut items: Vec<(u64, u8, usize, &'static str, String)> = vec![];
    let h = &rec.hist;
    for (i, s) in h.sent.iter().enumerate() {
        items.push((s.end, 1, i, "sent", format!("{}[{}] gen={} start={} ok={} {}", s.src, s.op, s.gen, s.start, s.ok, s.env.show())));
    }
    for (i, r) in h.recv.iter().enumerate() {
        items.push((r.step, 2, i, "recv", format!("{} gen={} {}", r.ep, r.gen, r.env.show())));
    }
    for (i, (s, d, ok)) in h.attach.iter().enumerate() {
        items.push((*s, 3, i, "attach", format!("d{d} ok={ok}")));
    }
    for (i, r) in h.resolves.iter().enumerate() {
        items.push((r.step, 4, i, "find", format!("{:?} {:?} -> {:?}", r.node, r.lane, r.agent)));
    }
    for (i, (s, m)) in h.marks.iter().enumerate() {
        items.push((*s, 5, i, "mark", m.clone()));
    }
    for (i, (s, ep, how)) in h.ends.iter().enumerate() {
        items.push((*s, 6, i, "ep-end", format!("{ep} {how}")));
    }
    for (i, (s, m)) in h.peer_ctl.iter().enumerate() {
        items.push((*s, 7, i, "peer-ctl", m.clone()));
    }
    for (i, (s, ep, m)) in h.undecodable.iter().enumerate() {
        items.push((*s, 8, i, "undecod", format!("{ep} {m}")));
    }
    if let Some(s) = rec.task_s_done {
        items.push((s, 9, 0, "task-done", "taskS".into()));
    }
    if let Some(s) = rec.task_c_done {
        items.push((s, 9, 1, "task-done", "taskC".into()));
    }
    for (i, p) in rec.panics.iter().enumerate() {
        items.push((p.step, 10, i, "panic", format!("{} {}", p.node, p.message)));
    }
    items.sort_by(|a, b| (a.0, a.1, a.2).cmp(&(b.0, b.1, b.2)));
    let mut log = EventLog::new(keep);
    for (s, _, _, k, d) in items {
        log.rec(s, k, &d);
    }
    // Lengths only (the bytes themselves are masked with keys the simulator does not control).
    log.rec(rec.steps, "pipe", &format!("a->b {} bytes, b->a {} bytes, short reads {}, short writes {}, full {}", rec.pipe.bytes_ab, rec.pipe.bytes_ba, rec.pipe.short_reads, rec.pipe.short_writes, rec.pipe.full_hits));
    log
}
