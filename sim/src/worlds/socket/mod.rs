//! W-SOCKET (C11): WARP envelopes cross the socket unchanged and reach only their addressee.
//!
//! Real: `swimos_remote::RemoteTask` (registration / incoming / outgoing tasks, `ReconEncoder`,
//! `interpret_envelope`), `swimos_messages::warp` header peeling, the raw request / response codecs,
//! `MultiReader`, byte channels, `ratchet` framing (both roles, split sender / receiver).
//! Harness: the duplex byte pipe (`pipe.rs`), agents / downlinks / FindNode resolver on byte
//! channels, the scripted web socket peer of the one-sided topologies, the executor.

pub mod oracle;
pub mod pipe;
pub mod run;
pub mod scenario;

use std::collections::BTreeSet;

use serde_json::{json, Value as Json};

use crate::core::tok::block_on_sim;
use crate::core::{Outcome, Tier, World};

use scenario::*;

pub struct SocketWorld;

impl World for SocketWorld {
    fn name(&self) -> &'static str {
        "socket"
    }

    fn generate(&self, seed: u64, _tier: Tier) -> Json {
        serde_json::to_value(generate(seed)).unwrap()
    }

    fn execute(&self, scenario: &Json, keep_log: bool) -> Outcome {
        let sc: SockScenario = match serde_json::from_value(scenario.clone()) {
            Ok(s) => s,
            Err(e) => return Outcome { harness_error: Some(format!("bad scenario: {e}")), ..Default::default() },
        };
        let rec = block_on_sim(sc.tokio_seed, run::run(&sc));
        let log = run::build_log(&rec, keep_log);
        let (violations, probes) = oracle::check(&rec);
        let mut out = Outcome {
            violations,
            log_hash: log.hash(),
            log_lines: log.lines().to_vec(),
            steps: rec.steps,
            decisions: rec.decisions,
            sim_time_ms: rec.sim_ms,
            ..Default::default()
        };
        let h = &rec.hist;
        for s in h.sent.iter().filter(|s| s.ok) {
            out.count(&format!("sent.{}", s.env.kind.tag()), 1);
        }
        for r in h.recv.iter() {
            out.count(&format!("received.{}", r.env.kind.tag()), 1);
        }
        out.count("sent.failed_writes", h.sent.iter().filter(|s| !s.ok).count() as u64);
        let mut names: BTreeSet<&str> = BTreeSet::new();
        for s in h.sent.iter().filter(|s| s.ok) {
            names.insert(s.env.node.as_str());
            names.insert(s.env.lane.as_str());
        }
        let adversarial = names.iter().filter(|n| is_adversarial(n) && !n.ends_with("-nobody")).count() as u64;
        out.count("adversarial_strings_used", adversarial);
        out.count("attach.ok", h.attach.iter().filter(|a| a.2).count() as u64);
        out.count("attach.failed", h.attach.iter().filter(|a| !a.2).count() as u64);
        let detached = h.marks.iter().filter(|(_, m)| m.ends_with(" detached")).count() as u64;
        let stopped = h.marks.iter().filter(|(_, m)| m.contains(" stopped gen=")).count() as u64;
        out.count("detach.downlink", detached);
        out.count("detach.agent_stop", stopped);
        out.count("agent_routes_opened", h.resolves.iter().filter(|r| r.agent.is_some()).count() as u64);
        let refusals = h.resolves.iter().filter(|r| r.agent.is_none()).count() as u64;
        out.count("find_node.refused", refusals);
        out.count("fault.socket_cut", rec.cut_step.is_some() as u64);
        let injected = h.injected.iter().filter(|i| i.2 != "ignored").count() as u64;
        out.count("fault.invalid_frames_injected", injected);
        for (_, _, class) in h.injected.iter() {
            out.count(&format!("injected.{class}"), 1);
        }
        out.count("invalid.answered_with_protocol_close", probes.invalid_answered_with_close);
        out.count("probe.delivered_after_invalid", probes.delivered_after_invalid);
        out.count("probe.notfound_replies_seen", probes.notfound_replies);
        out.count("peer.pongs", h.peer_ctl.iter().filter(|(_, m)| m.starts_with("pong")).count() as u64);
        out.count("peer.closes_seen", h.peer_ctl.iter().filter(|(_, m)| m.starts_with("close")).count() as u64);
        // Counters are summed over runs: a histogram shows the maximum (8 = 4 agents + 4 downlinks).
        out.count(&format!("endpoints.{}", sc.agents.len() + sc.downlinks.len()), 1);
        out.count(&format!("topo.{:?}", sc.topo), 1);
        out.count("order_checks", probes.order_checks);
        out.count("order_checks_skipped_state_cap", probes.order_checks_skipped);
        out.count("exact_delivery_checks", probes.exact_checks);
        out.count("pipe.short_reads", rec.pipe.short_reads);
        out.count("pipe.short_writes", rec.pipe.short_writes);
        out.count("pipe.full", rec.pipe.full_hits);
        out.count("step_limit_hit", rec.step_limit as u64);
        out.count("quiescent_runs", rec.quiescent.is_some() as u64);
        out.count("tasks_stopped_cleanly", (rec.task_s_done.is_some() as u64) + (rec.task_c_done.is_some() as u64));
        out.count("fault.clock_advance", rec.time_advances);
        // Two sources shared one socket direction concurrently: two sources on the same side whose
        // writing intervals overlap in time.
        let mut shared = false;
        let srcs: BTreeSet<&str> = h.sent.iter().filter(|s| s.ok).map(|s| s.src.as_str()).collect();
        for a in srcs.iter() {
            for b in srcs.iter() {
                if a < b && a.as_bytes()[0] == b.as_bytes()[0] {
                    let span = |x: &str| {
                        let v: Vec<&run::Sent> = h.sent.iter().filter(|s| s.ok && s.src == x).collect();
                        (v.iter().map(|s| s.start).min().unwrap_or(0), v.iter().map(|s| s.end).max().unwrap_or(0))
                    };
                    let (a0, a1) = span(a);
                    let (b0, b1) = span(b);
                    if a0 <= b1 && b0 <= a1 {
                        shared = true;
                    }
                }
            }
        }
        out.count("probe.sources_shared_socket", shared as u64);
        out.nontrivial = shared || adversarial > 0 || rec.cut_step.is_some() || injected > 0 || detached + stopped + refusals > 0;
        out
    }

    fn shrink(&self, scenario: &Json) -> Vec<Json> {
        let Ok(sc) = serde_json::from_value::<SockScenario>(scenario.clone()) else { return vec![] };
        shrink(&sc).into_iter().map(|s| serde_json::to_value(s).unwrap()).collect()
    }

    fn rule(&self) -> String {
        "one run = one seeded scenario: topology (pair of real RemoteTasks | one real task in server role vs scripted ws client | one real task in client role vs scripted ws server), \
         1-4 agents (node URIs) and 1-4 downlinks (node, lane; some send-only) attaching / detaching at drawn points, up to 30 envelopes per source with unique sequence numbers in the bodies, \
         node / lane names from an adversarial pool (empty, true/false, quotes, backslashes, control, non-BMP, percent-encodings, blanks, @ : , ; ( ) { }), bodies empty / plain / attribute-first / quoted / not Recon, \
         all eight envelope kinds, byte-pipe capacities 16..65536 with short reads / writes, byte-channel capacities 8..4096, throttled readers, coop budgets, schedule policy and seed, optional socket cut, \
         optional bad frame (invalid envelope, binary, bad UTF-8, close), pings, auth/deauth; \
         non-trivial = two sources shared a socket direction concurrently, or an adversarial string was used, or a fault fired (cut, bad frame, detach, agent stop, unresolved node); distinct = distinct hash of the recorded history"
            .into()
    }

    fn components(&self) -> Json {
        json!({
            "real": [
                "swimos_remote::RemoteTask (registration_task, IncomingTask, OutgoingTask, interpret_envelope, connect_agent_route, send_response, close handling)",
                "swimos_remote::task::envelopes::ReconEncoder (through the task)",
                "swimos_messages::warp::peel_envelope_header_str (through the task, and to read frames at the scripted peer)",
                "swimos_messages::protocol raw request/response encoders and decoders",
                "swimos_multi_reader::MultiReader", "swimos_byte_channel", "swimos_recon header parser, swimos_model escape_if_needed / is_identifier",
                "ratchet_rs WebSocket framing (server and client role, split sender/receiver, control frames)"
            ],
            "stub": [
                "duplex byte pipe (SimDuplex: bounded buffers, short reads/writes, cut)",
                "agents and downlinks (scripted endpoints on byte channels)",
                "FindNode resolver (stands for swimos_server_app's FindRoute handling + attach_agent)",
                "scripted web socket peer with its own envelope writer (one-sided topologies)",
                "executor, clock"
            ]
        })
    }
}
