//! W-UPLINKS: op-sequence simulator for the per-remote uplink queue of the agent runtime's write task
//! (property C04, small-scope engine; also the queueing half of C03's "synced follows the queued data").
//!
//! Code under test, all compiled from /repo by `#[path]` through the crate-root shims `crate::agent`
//! (`src/shims/rt_agent.rs`) and `crate::backpressure` (nothing is copied):
//!   agent/task/remotes/mod.rs        `RemoteTracker` (insert, push_special, push_write, unlink_lane, replace_and_pop)
//!   agent/task/remotes/uplink/mod.rs `Uplinks` (push, push_special, replace_and_pop) - private inside `remotes`,
//!                                    reached through `RemoteTracker`, which forwards 1:1 per remote
//!   agent/task/remotes/registry.rs   `LaneRegistry`
//!   agent/task/remotes/sender/mod.rs `RemoteSender` (FramedWrite<ByteWriter, RawResponseMessageEncoder>)
//!   agent/task/write_fut/mod.rs      `WriteTask::into_future`, `WriteAction`, `SpecialAction`
//!   backpressure/{mod,key/mod,map_queue/mod,recon/mod}.rs  Value/Supply/MapBackpressure, MapOperationQueue, encoder
//! plus the real `swimos_byte_channel` (sink of every remote) and `RawResponseMessageDecoder` (to read the
//! frames back).
//!
//! One run = a batch of independent sequences: <= 4 lanes (kinds value / supply / map drawn per lane), 1..=2
//! remotes, a drawn channel capacity (small capacities make the write future block in the middle of a frame)
//! and <= 64 ops:
//!   `P<r>:<l>:v<id>`       push an event of a value / supply lane, body `r<r>l<l>b<id>` (id 0 = EMPTY body)
//!   `P<r>:<l>:u<k>=<id>`   push map update of key #k (table KEYS; some keys are equal as Recon, different as text)
//!   `P<r>:<l>:d<k>` / `:c` push map remove / clear
//!   `P<r>:<l>:y`           push a synced marker
//!   `P<r>:<l>:x`           push a map update whose key is not UTF-8 (the push must fail, nothing else)
//!   `S<r>:L<l>` / `S<r>:U<l>` / `S<r>:N`   push_special Linked / Unlinked / LaneNotFound
//!   `D<r>`                 the outstanding write of remote r completes: its `WriteTask::into_future` is polled to
//!                          completion against the sink (drained whenever it blocks), the frames are decoded, then
//!                          `replace_and_pop(sender, buffer)` returns the writer and pops the next task
//! The writer is lent out from the push that found it idle until the `D` op, i.e. for a drawn number of ops.
//! At the end every remote is drained (`D` until nothing is outstanding).
//! The generator follows the write task's protocol: data and synced for a lane only between its Linked and its
//! Unlinked (in push order); ops violating it in a shrunk or hand-written sequence are skipped.
//!
//! Reference model per remote (from C04 / C03 and the doc comments of `Uplinks`): FIFO of specials; per lane the
//! pending data - value lane: the newest value; supply lane: every item in order; map lane: a coalescing queue
//! (one entry per Recon-equal key in first-push position, replaced in place; a clear empties it) - and a
//! `synced owed` flag; a queued Unlinked discards the lane's pending data and marker. Which lane is served next
//! is NOT prescribed (any lane with something pending is accepted).
//!
//! Rules (signature = rule:detail, no values):
//!   C04.uplinks.special_fifo     at a pop with specials queued the task is the OLDEST special (`not_first`, `wrong_action`);
//!                                a special pushed to an idle writer is written at once
//!   C04.uplinks.lend             a push that finds the writer idle returns the write task (`not_lent`), a push while
//!                                it is lent out returns none (`double_lend`)
//!   C04.uplinks.stuck            something is pending but the pop parks the writer (`parked_with_pending`), or the
//!                                idle writer does not produce a task after an earlier failed push (`after_invalid_key`)
//!   C04.uplinks.spurious_task    a task for a lane with nothing pending (`<kind>`), or a task although nothing is owed
//!   C04.uplinks.action           the popped action does not fit the lane's pending state (synced owed <-> *Synced
//!                                action, data <-> Event)
//!   C04.uplinks.frames           the frames written by a task differ from the model: value = newest, supply = oldest
//!                                item, map = head of the coalescing queue, `synced` after ALL map data / the value
//!                                queued before it, specials (`value`, `supply`, `map`, `special`, `direct`, `count`)
//!   C04.uplinks.empty_event      an event frame with an empty body although no empty body was pushed for that lane
//!   C04.uplinks.state_machine    per (remote, lane) the frames are not (linked (event|synced)* unlinked)*:
//!                                `event_outside_link`, `synced_outside_link`, `linked_twice`, `unlinked_outside_link`
//!                                (a synced nobody asked for is a `frames` mismatch)
//!   C04.uplinks.header           wrong origin / node / unknown lane name in a frame; a frame in the wrong remote's sink
//!   C04.uplinks.invalid_key      a non-UTF-8 map key is accepted, or changes the queue
//!   C04.uplinks.write_error / C04.uplinks.panic
//!
//! Relaxations: supply lanes are stateless, so a `synced` of a supply lane may overtake queued items (the code
//! writes the oldest item and the marker, the rest later; probe `probe.supply_synced_overtakes`); C03 speaks of
//! value and map lanes only.

use std::collections::{BTreeMap, BTreeSet, VecDeque};
use std::future::Future;
use std::num::NonZeroUsize;
use std::pin::Pin;
use std::sync::atomic::{AtomicU64, Ordering};
use std::sync::Arc;
use std::task::{Context, Poll, Wake, Waker};

use bytes::{Bytes, BytesMut};
use serde::{Deserialize, Serialize};
use serde_json::{json, Value as Json};
use swimos_agent_protocol::MapOperation;
use swimos_api::agent::UplinkKind;
use swimos_messages::protocol::{Notification, RawResponseMessageDecoder};
use swimos_model::{Text, Value};
use swimos_recon::parser::parse_recognize;
use swimos_utilities::byte_channel::{byte_channel, ByteReader};
use swimos_utilities::trigger::promise;
use tokio::io::{AsyncRead, ReadBuf};
use tokio_util::codec::Decoder;
use uuid::Uuid;

use crate::agent::task::remotes::{RemoteTracker, UplinkResponse};
use crate::agent::task::write_fut::{SpecialAction, WriteAction, WriteResult, WriteTask};
use crate::agent::DisconnectionReason;
use crate::core::rng::{mix, Rng};
use crate::core::{Outcome, Tier, Violation, World};
use crate::worlds::opseq::{execute_batch, shrink_json, Batch, SeqCtx, SeqSpec};

const PROP: &str = "C04";
pub const BATCH: u64 = 64;
pub const MAX_OPS: usize = 64;
const NODE: &str = "/node";
const NO_LANE: &str = "nolane";
const LANE_NOT_FOUND_BODY: &[u8] = b"@laneNotFound";
const IDENTITY: u128 = 0xA6E47;
const REMOTES: [u128; 2] = [0x1111_0000_0001, 0x2222_0000_0002];
/// Map keys; several are equal as Recon and different as text (classes are computed with the Recon parser).
pub const KEYS: [&str; 6] = ["1", " 1", "2", "a", "\"a\"", "@k"];

fn key_classes() -> Vec<usize> {
    let vals: Vec<Value> = KEYS.iter().map(|k| parse_recognize::<Value>(*k, false).expect("key table")).collect();
    (0..KEYS.len()).map(|i| (0..=i).find(|j| vals[*j] == vals[i]).unwrap()).collect()
}

#[derive(Clone, Copy, Debug, PartialEq, Eq)]
pub enum Data {
    /// Event of a value / supply lane with body id (0 = empty body).
    Val(u32),
    Upd(usize, u32),
    Rem(usize),
    Clr,
    Synced,
    BadKey,
}

#[derive(Clone, Copy, Debug, PartialEq, Eq)]
pub enum Op {
    Push(usize, usize, Data),
    Linked(usize, usize),
    Unlinked(usize, usize),
    NotFound(usize),
    Done(usize),
}

impl Op {
    pub fn code(&self) -> String {
        match self {
            Op::Push(r, l, d) => {
                let d = match d {
                    Data::Val(b) => format!("v{b}"),
                    Data::Upd(k, b) => format!("u{k}={b}"),
                    Data::Rem(k) => format!("d{k}"),
                    Data::Clr => "c".to_string(),
                    Data::Synced => "y".to_string(),
                    Data::BadKey => "x".to_string(),
                };
                format!("P{r}:{l}:{d}")
            }
            Op::Linked(r, l) => format!("S{r}:L{l}"),
            Op::Unlinked(r, l) => format!("S{r}:U{l}"),
            Op::NotFound(r) => format!("S{r}:N"),
            Op::Done(r) => format!("D{r}"),
        }
    }

    pub fn parse(s: &str) -> Option<Op> {
        let (k, rest) = s.split_at(1);
        let parts: Vec<&str> = rest.split(':').collect();
        let r: usize = parts.first()?.parse().ok()?;
        match (k, parts.len()) {
            ("D", 1) => Some(Op::Done(r)),
            ("S", 2) => {
                let (c, l) = parts[1].split_at(1);
                match c {
                    "N" if l.is_empty() => Some(Op::NotFound(r)),
                    "L" => Some(Op::Linked(r, l.parse().ok()?)),
                    "U" => Some(Op::Unlinked(r, l.parse().ok()?)),
                    _ => None,
                }
            }
            ("P", 3) => {
                let l: usize = parts[1].parse().ok()?;
                let (c, a) = parts[2].split_at(1);
                let d = match c {
                    "v" => Data::Val(a.parse().ok()?),
                    "u" => {
                        let (k, b) = a.split_once('=')?;
                        Data::Upd(k.parse().ok()?, b.parse().ok()?)
                    }
                    "d" => Data::Rem(a.parse().ok()?),
                    "c" if a.is_empty() => Data::Clr,
                    "y" if a.is_empty() => Data::Synced,
                    "x" if a.is_empty() => Data::BadKey,
                    _ => return None,
                };
                Some(Op::Push(r, l, d))
            }
            _ => None,
        }
    }

    fn remote(&self) -> usize {
        match *self {
            Op::Push(r, ..) | Op::Linked(r, _) | Op::Unlinked(r, _) | Op::NotFound(r) | Op::Done(r) => r,
        }
    }

    fn lane(&self) -> Option<usize> {
        match *self {
            Op::Push(_, l, _) | Op::Linked(_, l) | Op::Unlinked(_, l) => Some(l),
            _ => None,
        }
    }
}

#[derive(Clone, Debug, PartialEq, Serialize, Deserialize)]
pub struct Seq {
    /// Lane kinds: "v" value, "s" supply, "m" map.
    pub lanes: Vec<String>,
    pub remotes: usize,
    /// Capacity of every remote's byte channel.
    pub cap: usize,
    pub ops: Vec<String>,
}

impl SeqSpec for Seq {
    fn generate(seed: u64, idx: u64) -> Seq {
        gen_seq(&mut Rng::new(mix(seed, "uplinks-seq", idx)))
    }

    fn op_count(&self) -> usize {
        self.ops.len()
    }

    fn without_ops(&self, start: usize, len: usize) -> Seq {
        let mut s = self.clone();
        s.ops.drain(start..start + len);
        s
    }

    fn simplify(&self) -> Vec<Seq> {
        let mut out = vec![];
        if self.cap < 4096 {
            out.push(Seq { cap: 4096, ..self.clone() });
        }
        let ops: Vec<Op> = self.ops.iter().filter_map(|s| Op::parse(s)).collect();
        if self.remotes > 1 && ops.iter().all(|o| o.remote() == 0) {
            out.push(Seq { remotes: 1, ..self.clone() });
        }
        if self.lanes.len() > 1 && ops.iter().all(|o| o.lane().map(|l| l + 1 < self.lanes.len()).unwrap_or(true)) {
            let mut s = self.clone();
            s.lanes.pop();
            out.push(s);
        }
        out
    }
}

fn gen_seq(rng: &mut Rng) -> Seq {
    let n_lanes = rng.range(1, 4) as usize;
    // Swarm: some sequences are single-kind.
    let only = if rng.chance(1, 3) { Some(*rng.pick(&["v", "s", "m"])) } else { None };
    let lanes: Vec<String> = (0..n_lanes).map(|_| only.unwrap_or_else(|| *rng.pick(&["v", "s", "m", "m"])).to_string()).collect();
    let remotes = if rng.chance(1, 4) { 2 } else { 1 };
    let cap = *rng.pick(&[24usize, 40, 64, 200, 4096, 4096]);
    let len = match rng.below(4) {
        0 => rng.range(3, 12),
        1 => rng.range(10, 30),
        _ => rng.range(24, MAX_OPS as u64),
    } as usize;
    // Probability (x/16) that a `D` is drawn at each step: low values keep the writer lent out for long.
    let w_done = *rng.pick(&[1u64, 2, 4, 8]);
    let w_special = rng.range(1, 4);
    let w_synced = rng.range(0, 4);
    let w_bad = if rng.chance(1, 4) { 1 } else { 0 };
    let p_empty = *rng.pick(&[0u64, 0, 8]);
    let n_keys = rng.range(2, KEYS.len() as u64) as usize;
    let mut linked = vec![vec![false; n_lanes]; remotes];
    let mut next_id = 1u32;
    let mut ops: Vec<Op> = vec![];
    while ops.len() < len {
        let r = rng.usize_below(remotes);
        if rng.below(16) < w_done {
            ops.push(Op::Done(r));
            continue;
        }
        let l = rng.usize_below(n_lanes);
        let x = rng.below(20);
        if x < w_special || !linked[r][l] {
            // Link management (always for a lane that is not linked: nothing else is legal there).
            if !linked[r][l] {
                if rng.chance(1, 12) {
                    ops.push(Op::NotFound(r));
                } else {
                    linked[r][l] = true;
                    ops.push(Op::Linked(r, l));
                }
            } else if rng.chance(1, 8) {
                ops.push(Op::NotFound(r));
            } else {
                linked[r][l] = false;
                ops.push(Op::Unlinked(r, l));
            }
            continue;
        }
        if x < w_special + w_synced {
            ops.push(Op::Push(r, l, Data::Synced));
            continue;
        }
        let d = match lanes[l].as_str() {
            "m" => {
                if w_bad > 0 && rng.chance(1, 12) {
                    Data::BadKey
                } else {
                    let k = rng.usize_below(n_keys);
                    match rng.below(10) {
                        0 => Data::Clr,
                        1..=2 => Data::Rem(k),
                        _ => {
                            next_id += 1;
                            Data::Upd(k, next_id)
                        }
                    }
                }
            }
            _ => {
                if p_empty > 0 && rng.below(p_empty) == 0 {
                    Data::Val(0)
                } else {
                    next_id += 1;
                    Data::Val(next_id)
                }
            }
        };
        ops.push(Op::Push(r, l, d));
    }
    Seq { lanes, remotes, cap, ops: ops.iter().map(|o| o.code()).collect() }
}

// ---------------------------------------------------------------------------------------------
// Model
// ---------------------------------------------------------------------------------------------

#[derive(Clone, Debug, PartialEq, Eq)]
enum MOp {
    Update(usize, Vec<u8>),
    Remove(usize),
    Clear,
}

#[derive(Clone, Debug)]
enum Pending {
    Value { cur: Option<Vec<u8>>, synced: bool },
    Supply { items: VecDeque<Vec<u8>>, synced: bool },
    /// Entries carry the key CLASS.
    Map { queue: VecDeque<MOp>, synced: bool },
}

impl Pending {
    fn new(kind: &str) -> Pending {
        match kind {
            "v" => Pending::Value { cur: None, synced: false },
            "s" => Pending::Supply { items: VecDeque::new(), synced: false },
            _ => Pending::Map { queue: VecDeque::new(), synced: false },
        }
    }

    fn has_data(&self) -> bool {
        match self {
            Pending::Value { cur, .. } => cur.is_some(),
            Pending::Supply { items, .. } => !items.is_empty(),
            Pending::Map { queue, .. } => !queue.is_empty(),
        }
    }

    fn synced(&self) -> bool {
        match self {
            Pending::Value { synced, .. } | Pending::Supply { synced, .. } | Pending::Map { synced, .. } => *synced,
        }
    }

    fn owed(&self) -> bool {
        self.has_data() || self.synced()
    }
}

#[derive(Clone, Debug, PartialEq, Eq)]
enum Special {
    Linked(usize),
    Unlinked(usize),
    NotFound,
}

/// One expected frame: kind + acceptable bodies (several for map keys that are equal as Recon).
#[derive(Clone, Debug)]
enum XFrame {
    Linked,
    Synced,
    Unlinked(Vec<u8>),
    Event(Vec<Vec<u8>>),
}

#[derive(Clone, Debug, PartialEq, Eq)]
enum Frame {
    Linked,
    Synced,
    Unlinked(Vec<u8>),
    Event(Vec<u8>),
}

impl Frame {
    fn show(&self) -> String {
        match self {
            Frame::Linked => "linked".into(),
            Frame::Synced => "synced".into(),
            Frame::Unlinked(b) => format!("unlinked({})", String::from_utf8_lossy(b)),
            Frame::Event(b) => format!("event({})", String::from_utf8_lossy(b)),
        }
    }
}

struct Lent {
    task: WriteTask,
    lane_name: String,
    /// What the model says the task must write, and which rule detail a mismatch gets.
    expect: Vec<XFrame>,
    what: &'static str,
}

#[derive(Clone, Copy, Debug, PartialEq, Eq)]
enum LinkState {
    Unlinked,
    Linked,
}

struct Remote {
    reader: ByteReader,
    inbuf: BytesMut,
    _done: promise::Receiver<DisconnectionReason>,
    lent: Option<Lent>,
    /// Model: is the writer lent out.
    m_lent: bool,
    specials: VecDeque<Special>,
    pending: BTreeMap<usize, Pending>,
    /// Frame-stream state machine per lane, empty bodies pushed.
    link: Vec<LinkState>,
    empty_pushed: Vec<u64>,
    /// A push failed with InvalidKey while the writer was idle (the writer must survive that).
    bad_key_while_idle: bool,
}

struct FlagWaker(AtomicU64);

impl Wake for FlagWaker {
    fn wake(self: Arc<Self>) {
        self.0.fetch_add(1, Ordering::SeqCst);
    }
    fn wake_by_ref(self: &Arc<Self>) {
        self.0.fetch_add(1, Ordering::SeqCst);
    }
}

fn body_of(r: usize, l: usize, id: u32) -> Vec<u8> {
    if id == 0 {
        vec![]
    } else {
        format!("r{r}l{l}b{id}").into_bytes()
    }
}

fn map_texts(classes: &[usize], op: &MOp) -> Vec<Vec<u8>> {
    let keys = |c: usize| KEYS.iter().enumerate().filter(move |(i, _)| classes[*i] == c).map(|(_, k)| *k);
    match op {
        MOp::Clear => vec![b"@clear".to_vec()],
        MOp::Remove(c) => keys(*c).map(|k| format!("@remove(key:{k})").into_bytes()).collect(),
        MOp::Update(c, v) => keys(*c)
            .map(|k| {
                let mut t = format!("@update(key:{k}) ").into_bytes();
                t.extend_from_slice(v);
                t
            })
            .collect(),
    }
}

struct Run<'a, 'b> {
    seq: &'a Seq,
    ctx: &'a mut SeqCtx<'b>,
    tracker: RemoteTracker,
    lane_ids: Vec<u64>,
    classes: Vec<usize>,
    remotes: Vec<Remote>,
    nontrivial: bool,
    harness_error: Option<String>,
}

impl<'a, 'b> Run<'a, 'b> {
    fn viol(&mut self, oi: usize, rule: &str, sig: &str, detail: String) {
        let text = format!("{detail}; lanes={:?} remotes={} cap={} ops={}", self.seq.lanes, self.seq.remotes, self.seq.cap, self.seq.ops.join(" "));
        // What the queue delivers (or strands, duplicates, fabricates) for a lane of a given kind is also the subject
        // of the property about that kind of lane: value lanes C01, map lanes C02, supply lanes C14.
        if matches!(rule, "C04.uplinks.stuck" | "C04.uplinks.frames" | "C04.uplinks.spurious_task" | "C04.uplinks.action" | "C04.uplinks.empty_event") {
            let other = if sig.ends_with("value") {
                Some("C01")
            } else if sig.ends_with("map") {
                Some("C02")
            } else if sig.ends_with("supply") {
                Some("C14")
            } else {
                None
            };
            if let Some(prop) = other {
                let r = rule.replacen("C04.", &format!("{prop}."), 1);
                self.ctx.violate(oi, Violation::new(prop, &r, sig, text.clone()));
            }
            // What a remote receives between its sync request and `synced` on a value or map lane (the queue decides
            // it once a synced marker has been pushed) is the subject of C03 as well.
            let synced_pushed = self.seq.ops.iter().take(oi).any(|o| o.starts_with('P') && o.ends_with(":y"));
            if synced_pushed && (sig.ends_with("value") || sig.ends_with("map")) {
                let r = rule.replacen("C04.", "C03.", 1);
                self.ctx.violate(oi, Violation::new("C03", &r, sig, text.clone()));
            }
        }
        let v = Violation::new(PROP, rule, sig, text);
        self.ctx.violate(oi, v);
    }

    fn lane_name(l: usize) -> String {
        format!("lane{l}")
    }

    fn kind_name(&self, l: usize) -> &'static str {
        match self.seq.lanes[l].as_str() {
            "v" => "value",
            "s" => "supply",
            _ => "map",
        }
    }

    fn uplink_kind(&self, l: usize) -> UplinkKind {
        match self.seq.lanes[l].as_str() {
            "v" => UplinkKind::Value,
            "s" => UplinkKind::Supply,
            _ => UplinkKind::Map,
        }
    }

    fn action_name(a: &WriteAction) -> &'static str {
        match a {
            WriteAction::Event => "Event",
            WriteAction::ValueSynced(true) => "ValueSynced(true)",
            WriteAction::ValueSynced(false) => "ValueSynced(false)",
            WriteAction::MapSynced(Some(_)) => "MapSynced(queue)",
            WriteAction::MapSynced(None) => "MapSynced(none)",
            WriteAction::Special(SpecialAction::Linked(_)) => "Linked",
            WriteAction::Special(SpecialAction::Unlinked { .. }) => "Unlinked",
            WriteAction::Special(SpecialAction::LaneNotFound { .. }) => "LaneNotFound",
        }
    }

    fn special_frame(s: &Special) -> (String, XFrame) {
        match s {
            Special::Linked(l) => (Self::lane_name(*l), XFrame::Linked),
            Special::Unlinked(l) => (Self::lane_name(*l), XFrame::Unlinked(vec![])),
            Special::NotFound => (NO_LANE.to_string(), XFrame::Unlinked(LANE_NOT_FOUND_BODY.to_vec())),
        }
    }

    fn special_matches(s: &Special, a: &WriteAction, lane_ids: &[u64]) -> bool {
        match (s, a) {
            (Special::Linked(l), WriteAction::Special(SpecialAction::Linked(id))) => lane_ids[*l] == *id,
            (Special::Unlinked(l), WriteAction::Special(SpecialAction::Unlinked { lane_id, .. })) => lane_ids[*l] == *lane_id,
            (Special::NotFound, WriteAction::Special(SpecialAction::LaneNotFound { lane_name })) => lane_name.as_str() == NO_LANE,
            _ => false,
        }
    }

    // ----- pushes -------------------------------------------------------------------------------

    fn push_special(&mut self, oi: usize, r: usize, s: Special) {
        let action = match &s {
            Special::Linked(l) => SpecialAction::Linked(self.lane_ids[*l]),
            Special::Unlinked(l) => SpecialAction::unlinked(self.lane_ids[*l], Text::empty()),
            Special::NotFound => SpecialAction::lane_not_found(Text::new(NO_LANE)),
        };
        let got = self.tracker.push_special(action, &Uuid::from_u128(REMOTES[r]));
        let was_lent = self.remotes[r].m_lent;
        self.ctx.rec(oi, "special", &format!("remote {r} {s:?} -> {}", got.as_ref().map(|t| Self::action_name(&t.action)).unwrap_or("queued")));
        self.ctx.count(&format!("ops.special.{}", match s { Special::Linked(_) => "linked", Special::Unlinked(_) => "unlinked", Special::NotFound => "lane_not_found" }), 1);
        match (was_lent, got) {
            (false, Some(task)) => {
                if !Self::special_matches(&s, &task.action, &self.lane_ids) {
                    self.viol(oi, "C04.uplinks.special_fifo", "wrong_action", format!("op #{oi}: special {s:?} pushed to an idle writer produced {}", Self::action_name(&task.action)));
                }
                let (lane_name, f) = Self::special_frame(&s);
                self.lend(oi, r, task, lane_name, vec![f], "special");
            }
            (false, None) => {
                if self.remotes[r].bad_key_while_idle {
                    self.viol(oi, "C04.uplinks.stuck", "after_invalid_key", format!("op #{oi}: the writer of remote {r} is idle but the special {s:?} was queued: the writer was lost when an earlier push failed with InvalidKey"));
                } else {
                    self.viol(oi, "C04.uplinks.lend", "not_lent", format!("op #{oi}: special {s:?} for the idle writer of remote {r} was queued"));
                }
            }
            (true, Some(_)) => {
                self.viol(oi, "C04.uplinks.lend", "double_lend", format!("op #{oi}: special {s:?} produced a task while the writer of remote {r} is lent out"));
            }
            (true, None) => {
                if let Special::Unlinked(l) = &s {
                    if let Some(p) = self.remotes[r].pending.remove(l) {
                        if p.owed() {
                            self.ctx.count("probe.unlinked_queued_with_data_pending", 1);
                            self.nontrivial = true;
                        }
                    }
                }
                if self.remotes[r].pending.values().any(|p| p.owed()) {
                    self.ctx.count("probe.special_preempts_data", 1);
                    self.nontrivial = true;
                }
                self.remotes[r].specials.push_back(s);
            }
        }
    }

    fn push(&mut self, oi: usize, r: usize, l: usize, d: Data) {
        let kind = self.seq.lanes[l].clone();
        let body = |id: u32| Bytes::from(body_of(r, l, id));
        let resp = match (kind.as_str(), d) {
            (_, Data::Synced) => UplinkResponse::Synced(self.uplink_kind(l)),
            ("v", Data::Val(id)) => UplinkResponse::Value(body(id)),
            ("s", Data::Val(id)) => UplinkResponse::Supply(body(id)),
            ("m", Data::Upd(k, id)) => UplinkResponse::Map(MapOperation::Update { key: BytesMut::from(KEYS[k].as_bytes()), value: BytesMut::from(&body_of(r, l, id)[..]) }),
            ("m", Data::Rem(k)) => UplinkResponse::Map(MapOperation::Remove { key: BytesMut::from(KEYS[k].as_bytes()) }),
            ("m", Data::Clr) => UplinkResponse::Map(MapOperation::Clear),
            ("m", Data::BadKey) => UplinkResponse::Map(MapOperation::Update { key: BytesMut::from(&[0xffu8, 0xfe, b'k'][..]), value: BytesMut::from(&b"bad"[..]) }),
            _ => {
                // Data that does not fit the lane kind (hand-written sequence): skipped.
                self.ctx.rec(oi, "skip", &format!("{d:?} on a {kind} lane"));
                self.ctx.count("ops.skipped", 1);
                return;
            }
        };
        self.ctx.count(&format!("ops.push.{}", match d { Data::Val(_) => if kind == "v" { "value" } else { "supply" }, Data::Upd(..) => "map_update", Data::Rem(_) => "map_remove", Data::Clr => "map_clear", Data::Synced => "synced", Data::BadKey => "bad_key" }), 1);
        let was_lent = self.remotes[r].m_lent;
        let got = self.tracker.push_write(self.lane_ids[l], resp, &Uuid::from_u128(REMOTES[r]));
        let shown = match &got {
            Ok(Some(t)) => Self::action_name(&t.action),
            Ok(None) => "queued",
            Err(_) => "Err(InvalidKey)",
        };
        self.ctx.rec(oi, "push", &format!("remote {r} lane {l} {d:?} -> {shown}"));
        if d == Data::BadKey {
            match got {
                Err(_) => {
                    self.ctx.count(if was_lent { "probe.invalid_key.queued" } else { "probe.invalid_key.idle_writer" }, 1);
                    if !was_lent {
                        self.remotes[r].bad_key_while_idle = true;
                    }
                }
                Ok(t) => {
                    self.viol(oi, "C04.uplinks.invalid_key", "accepted", format!("op #{oi}: a map update with a non-UTF-8 key was accepted"));
                    if let Some(t) = t {
                        self.lend(oi, r, t, Self::lane_name(l), vec![], "direct");
                    }
                }
            }
            return;
        }
        if matches!(d, Data::Val(0)) {
            self.remotes[r].empty_pushed[l] += 1;
        }
        let got = match got {
            Ok(g) => g,
            Err(e) => {
                self.viol(oi, "C04.uplinks.invalid_key", "valid_key_rejected", format!("op #{oi}: {e}"));
                return;
            }
        };
        match (was_lent, got) {
            (false, Some(task)) => {
                // Written at once.
                let (want_action, frames): (&str, Vec<XFrame>) = match d {
                    Data::Synced => (if kind == "m" { "MapSynced(none)" } else { "ValueSynced(false)" }, vec![XFrame::Synced]),
                    Data::Val(id) => ("Event", vec![XFrame::Event(vec![body_of(r, l, id)])]),
                    Data::Upd(k, id) => ("Event", vec![XFrame::Event(vec![map_texts_exact(KEYS[k], Some(&body_of(r, l, id)))])]),
                    Data::Rem(k) => ("Event", vec![XFrame::Event(vec![map_texts_exact(KEYS[k], None)])]),
                    Data::Clr => ("Event", vec![XFrame::Event(vec![b"@clear".to_vec()])]),
                    Data::BadKey => unreachable!(),
                };
                if Self::action_name(&task.action) != want_action {
                    self.viol(oi, "C04.uplinks.action", "direct", format!("op #{oi}: push {d:?} to the idle writer produced {}, expected {want_action}", Self::action_name(&task.action)));
                }
                self.lend(oi, r, task, Self::lane_name(l), frames, "direct");
            }
            (false, None) => {
                if self.remotes[r].bad_key_while_idle {
                    self.viol(oi, "C04.uplinks.stuck", "after_invalid_key", format!("op #{oi}: the writer of remote {r} is idle but push {d:?} was queued: the writer was lost when an earlier push failed with InvalidKey (nothing will ever be written to this remote again)"));
                } else {
                    self.viol(oi, "C04.uplinks.lend", "not_lent", format!("op #{oi}: push {d:?} for the idle writer of remote {r} was queued"));
                }
            }
            (true, Some(_)) => {
                self.viol(oi, "C04.uplinks.lend", "double_lend", format!("op #{oi}: push {d:?} produced a task while the writer of remote {r} is lent out"));
            }
            (true, None) => {
                let classes = self.classes.clone();
                let p = self.remotes[r].pending.entry(l).or_insert_with(|| Pending::new(&kind));
                let had = p.has_data();
                match (p, d) {
                    (p, Data::Synced) => {
                        if !had {
                            self.ctx.count("probe.synced_queued_alone", 1);
                        } else {
                            self.ctx.count("probe.synced_queued_behind_data", 1);
                        }
                        self.nontrivial = true;
                        match p {
                            Pending::Value { synced, .. } | Pending::Supply { synced, .. } | Pending::Map { synced, .. } => *synced = true,
                        }
                    }
                    (Pending::Value { cur, .. }, Data::Val(id)) => {
                        if cur.is_some() {
                            self.ctx.count("probe.value_overwritten", 1);
                        }
                        *cur = Some(body_of(r, l, id));
                    }
                    (Pending::Supply { items, .. }, Data::Val(id)) => {
                        items.push_back(body_of(r, l, id));
                        if items.len() > 1 {
                            self.ctx.count("probe.supply_multi_pending", 1);
                        }
                    }
                    (Pending::Map { queue, .. }, Data::Upd(k, id)) => {
                        let c = classes[k];
                        let new = MOp::Update(c, body_of(r, l, id));
                        if let Some(e) = queue.iter_mut().find(|e| matches!(e, MOp::Update(c2, _) | MOp::Remove(c2) if *c2 == c)) {
                            *e = new;
                            self.ctx.count("probe.map_coalesced", 1);
                        } else {
                            queue.push_back(new);
                        }
                    }
                    (Pending::Map { queue, .. }, Data::Rem(k)) => {
                        let c = classes[k];
                        if let Some(e) = queue.iter_mut().find(|e| matches!(e, MOp::Update(c2, _) | MOp::Remove(c2) if *c2 == c)) {
                            *e = MOp::Remove(c);
                            self.ctx.count("probe.map_coalesced", 1);
                        } else {
                            queue.push_back(MOp::Remove(c));
                        }
                    }
                    (Pending::Map { queue, .. }, Data::Clr) => {
                        if !queue.is_empty() {
                            self.ctx.count("probe.map_clear_drops_queue", 1);
                        }
                        queue.clear();
                        queue.push_back(MOp::Clear);
                    }
                    _ => {}
                }
            }
        }
    }

    fn lend(&mut self, _oi: usize, r: usize, task: WriteTask, lane_name: String, expect: Vec<XFrame>, what: &'static str) {
        self.remotes[r].m_lent = true;
        self.remotes[r].lent = Some(Lent { task, lane_name, expect, what });
    }

    // ----- completion ---------------------------------------------------------------------------

    /// Runs the write future against the sink of remote `r`; returns the decoded frames (lane name, frame).
    fn run_write(&mut self, oi: usize, r: usize, task: WriteTask) -> Result<(WriteResult, Vec<(String, Frame)>), String> {
        let fw = Arc::new(FlagWaker(AtomicU64::new(0)));
        let waker = Waker::from(fw.clone());
        let mut cx = Context::from_waker(&waker);
        let mut fut = Box::pin(task.into_future());
        let mut frames = vec![];
        let mut blocked = false;
        let mut result = None;
        for _ in 0..100_000 {
            let p = fut.as_mut().poll(&mut cx);
            self.drain(r, &mut cx, &mut frames)?;
            match p {
                Poll::Ready(res) => {
                    result = Some(res);
                    break;
                }
                Poll::Pending => blocked = true,
            }
        }
        let Some(res) = result else { return Err(format!("op #{oi}: the write future did not complete in 100000 polls")) };
        // Whatever is still in the channel.
        for _ in 0..8 {
            self.drain(r, &mut cx, &mut frames)?;
        }
        if blocked {
            self.ctx.count("probe.write_blocked_mid_task", 1);
        }
        Ok((res, frames))
    }

    fn drain(&mut self, r: usize, cx: &mut Context<'_>, frames: &mut Vec<(String, Frame)>) -> Result<(), String> {
        let rem = &mut self.remotes[r];
        let mut chunk = [0u8; 512];
        loop {
            let mut rb = ReadBuf::new(&mut chunk);
            match Pin::new(&mut rem.reader).poll_read(cx, &mut rb) {
                Poll::Ready(Ok(())) => {
                    let n = rb.filled().len();
                    if n == 0 {
                        break;
                    }
                    rem.inbuf.extend_from_slice(rb.filled());
                }
                Poll::Ready(Err(e)) => return Err(format!("sink read error: {e}")),
                Poll::Pending => break,
            }
        }
        let mut dec = RawResponseMessageDecoder;
        loop {
            match dec.decode(&mut rem.inbuf) {
                Ok(Some(msg)) => {
                    let lane = msg.path.lane.as_str().to_string();
                    let mut bad = None;
                    if msg.origin != Uuid::from_u128(IDENTITY) {
                        bad = Some("origin");
                    } else if msg.path.node.as_str() != NODE {
                        bad = Some("node");
                    }
                    let f = match msg.envelope {
                        Notification::Linked => Frame::Linked,
                        Notification::Synced => Frame::Synced,
                        Notification::Unlinked(b) => Frame::Unlinked(b.map(|b| b.to_vec()).unwrap_or_default()),
                        Notification::Event(b) => Frame::Event(b.to_vec()),
                    };
                    frames.push((if let Some(b) = bad { format!("!{b}") } else { lane }, f));
                }
                Ok(None) => break,
                Err(e) => return Err(format!("sink decode error: {e}")),
            }
        }
        Ok(())
    }

    /// Frame-stream rules that do not depend on the queue model.
    fn stream_rules(&mut self, oi: usize, r: usize, lane: &str, f: &Frame) {
        if let Some(what) = lane.strip_prefix('!') {
            self.viol(oi, "C04.uplinks.header", what, format!("op #{oi}: a frame of remote {r} carries a wrong {what}"));
            return;
        }
        if lane == NO_LANE {
            if *f != Frame::Unlinked(LANE_NOT_FOUND_BODY.to_vec()) {
                self.viol(oi, "C04.uplinks.state_machine", "unknown_lane_frame", format!("op #{oi}: frame {} for the unknown lane", f.show()));
            }
            return;
        }
        let Some(l) = (0..self.seq.lanes.len()).find(|l| Self::lane_name(*l) == lane) else {
            self.viol(oi, "C04.uplinks.header", "lane", format!("op #{oi}: a frame of remote {r} names lane '{lane}'"));
            return;
        };
        let st = self.remotes[r].link[l];
        let kind = self.kind_name(l);
        match f {
            Frame::Linked => {
                if st == LinkState::Linked {
                    self.viol(oi, "C04.uplinks.state_machine", "linked_twice", format!("op #{oi}: remote {r} lane {l}: linked while linked"));
                }
                self.remotes[r].link[l] = LinkState::Linked;
            }
            Frame::Unlinked(_) => {
                if st == LinkState::Unlinked {
                    self.viol(oi, "C04.uplinks.state_machine", "unlinked_outside_link", format!("op #{oi}: remote {r} lane {l}: unlinked while not linked"));
                }
                self.remotes[r].link[l] = LinkState::Unlinked;
            }
            Frame::Event(b) => {
                if st == LinkState::Unlinked {
                    self.viol(oi, "C04.uplinks.state_machine", &format!("event_outside_link:{kind}"), format!("op #{oi}: remote {r} lane {l}: event frame {} after unlinked / before linked", f.show()));
                }
                if b.is_empty() {
                    if self.remotes[r].empty_pushed[l] == 0 {
                        self.viol(oi, "C04.uplinks.empty_event", kind, format!("op #{oi}: remote {r} lane {l}: event frame with an empty body, no empty body was pushed"));
                    } else {
                        self.remotes[r].empty_pushed[l] -= 1;
                    }
                }
            }
            Frame::Synced => {
                if st == LinkState::Unlinked {
                    self.viol(oi, "C04.uplinks.state_machine", &format!("synced_outside_link:{kind}"), format!("op #{oi}: remote {r} lane {l}: synced after unlinked / before linked"));
                }
            }
        }
    }

    fn done(&mut self, oi: usize, r: usize) {
        let Some(Lent { task, lane_name, expect, what }) = self.remotes[r].lent.take() else {
            self.ctx.rec(oi, "done", &format!("remote {r}: nothing outstanding"));
            self.ctx.count("ops.done.noop", 1);
            return;
        };
        self.ctx.count("ops.done", 1);
        let n_expect = expect.len();
        let ((sender, buffer, res), frames) = match self.run_write(oi, r, task) {
            Ok(x) => x,
            Err(e) => {
                self.ctx.rec(oi, "error", &e);
                self.harness_error = Some(e);
                return;
            }
        };
        let shown: Vec<String> = frames.iter().map(|(l, f)| format!("{l}:{}", f.show())).collect();
        self.ctx.rec(oi, "written", &format!("remote {r} [{}]", shown.join(", ")));
        if let Err(e) = res {
            self.viol(oi, "C04.uplinks.write_error", "", format!("op #{oi}: the write failed: {e}"));
        }
        for (lane, f) in &frames {
            self.stream_rules(oi, r, lane, f);
        }
        // Against the model.
        if frames.len() != n_expect {
            self.viol(oi, "C04.uplinks.frames", &format!("count:{what}"), format!("op #{oi}: remote {r} lane '{lane_name}': the task wrote {} frames [{}], the model expects {n_expect}", frames.len(), shown.join(", ")));
        } else {
            for ((lane, f), x) in frames.iter().zip(expect.iter()) {
                let ok = *lane == lane_name
                    && match (f, x) {
                        (Frame::Linked, XFrame::Linked) | (Frame::Synced, XFrame::Synced) => true,
                        (Frame::Unlinked(a), XFrame::Unlinked(b)) => a == b,
                        (Frame::Event(a), XFrame::Event(bs)) => bs.iter().any(|b| b == a),
                        _ => false,
                    };
                if !ok {
                    let want = match x {
                        XFrame::Linked => "linked".to_string(),
                        XFrame::Synced => "synced".to_string(),
                        XFrame::Unlinked(b) => format!("unlinked({})", String::from_utf8_lossy(b)),
                        XFrame::Event(bs) => format!("event({})", String::from_utf8_lossy(&bs[0])),
                    };
                    self.viol(oi, "C04.uplinks.frames", what, format!("op #{oi}: remote {r}: frame {lane}:{} written, the model expects {lane_name}:{want}", f.show()));
                    break;
                }
            }
        }
        // Return the writer and pop the next task.
        let next = self.tracker.replace_and_pop(sender, buffer);
        self.after_pop(oi, r, next);
    }

    fn after_pop(&mut self, oi: usize, r: usize, next: Option<WriteTask>) {
        let shown = next.as_ref().map(|t| format!("{} for '{}'", Self::action_name(&t.action), t.sender.lane)).unwrap_or_else(|| "none (writer parked)".into());
        self.ctx.rec(oi, "pop", &format!("remote {r} -> {shown}"));
        if let Some(s) = self.remotes[r].specials.pop_front() {
            match next {
                None => {
                    self.remotes[r].m_lent = false;
                    self.viol(oi, "C04.uplinks.stuck", "parked_with_special", format!("op #{oi}: special {s:?} is queued for remote {r} but the writer was parked"));
                }
                Some(task) => {
                    if !matches!(task.action, WriteAction::Special(_)) {
                        self.viol(oi, "C04.uplinks.special_fifo", "data_before_special", format!("op #{oi}: {} popped for remote {r} while special {s:?} is queued", Self::action_name(&task.action)));
                    } else if !Self::special_matches(&s, &task.action, &self.lane_ids) {
                        self.viol(oi, "C04.uplinks.special_fifo", "not_first", format!("op #{oi}: {} popped for remote {r}, the oldest queued special is {s:?}", Self::action_name(&task.action)));
                    }
                    let (lane_name, f) = Self::special_frame(&s);
                    self.lend(oi, r, task, lane_name, vec![f], "special");
                }
            }
            return;
        }
        let owed: Vec<usize> = self.remotes[r].pending.iter().filter(|(_, p)| p.owed()).map(|(l, _)| *l).collect();
        let Some(task) = next else {
            self.remotes[r].m_lent = false;
            if !owed.is_empty() {
                let kinds: BTreeSet<&str> = owed.iter().map(|l| self.kind_name(*l)).collect();
                let k = kinds.into_iter().collect::<Vec<_>>().join("+");
                self.viol(oi, "C04.uplinks.stuck", &format!("parked_with_pending:{k}"), format!("op #{oi}: lanes {owed:?} of remote {r} have pending data / synced but the writer was parked: they are never written"));
            }
            return;
        };
        // Which lane does the task serve?
        let name = task.sender.lane.clone();
        let Some(l) = (0..self.seq.lanes.len()).find(|l| Self::lane_name(*l) == name) else {
            self.viol(oi, "C04.uplinks.spurious_task", "unknown_lane", format!("op #{oi}: task {} for lane '{name}'", Self::action_name(&task.action)));
            self.lend(oi, r, task, name, vec![], "special");
            return;
        };
        let kind = self.kind_name(l);
        if matches!(task.action, WriteAction::Special(_)) {
            self.viol(oi, "C04.uplinks.special_fifo", "unqueued_special", format!("op #{oi}: special task {} popped for remote {r}, none is queued", Self::action_name(&task.action)));
            self.lend(oi, r, task, name, vec![], "special");
            return;
        }
        if !owed.contains(&l) {
            self.viol(oi, "C04.uplinks.spurious_task", kind, format!("op #{oi}: task {} for lane {l} of remote {r}, which has nothing pending (pending lanes: {owed:?})", Self::action_name(&task.action)));
            self.lend(oi, r, task, name, vec![], "special");
            return;
        }
        if owed.len() > 1 {
            self.ctx.count("probe.pop_with_several_lanes_pending", 1);
        }
        let classes = self.classes.clone();
        let act = Self::action_name(&task.action);
        let p = self.remotes[r].pending.get_mut(&l).unwrap();
        let mut frames: Vec<XFrame> = vec![];
        let mut bad_action: Option<String> = None;
        let what: &'static str;
        match p {
            Pending::Value { cur, synced } => {
                what = "value";
                let want = match (*synced, cur.is_some()) {
                    (true, true) => "ValueSynced(true)",
                    (true, false) => "ValueSynced(false)",
                    (false, _) => "Event",
                };
                if act != want {
                    bad_action = Some(want.to_string());
                }
                if let Some(v) = cur.take() {
                    frames.push(XFrame::Event(vec![v]));
                    if *synced {
                        self.ctx.count("probe.value_synced_with_data", 1);
                    }
                }
                if *synced {
                    frames.push(XFrame::Synced);
                    *synced = false;
                }
            }
            Pending::Supply { items, synced } => {
                what = "supply";
                let want = match (*synced, !items.is_empty()) {
                    (true, true) => "ValueSynced(true)",
                    (true, false) => "ValueSynced(false)",
                    (false, _) => "Event",
                };
                if act != want {
                    bad_action = Some(want.to_string());
                }
                if let Some(v) = items.pop_front() {
                    frames.push(XFrame::Event(vec![v]));
                }
                if *synced {
                    frames.push(XFrame::Synced);
                    *synced = false;
                    if !items.is_empty() {
                        // Relaxation: see the module doc.
                        self.ctx.count("probe.supply_synced_overtakes", 1);
                    }
                }
            }
            Pending::Map { queue, synced } => {
                what = "map";
                if *synced {
                    if act != "MapSynced(queue)" {
                        bad_action = Some("MapSynced(queue)".to_string());
                    }
                    let n = queue.len();
                    for op in queue.drain(..) {
                        frames.push(XFrame::Event(map_texts(&classes, &op)));
                    }
                    frames.push(XFrame::Synced);
                    *synced = false;
                    self.ctx.count(if n == 0 { "probe.map_synced_alone" } else { "probe.map_synced_drains_queue" }, 1);
                } else {
                    if act != "Event" {
                        bad_action = Some("Event".to_string());
                    }
                    if let Some(op) = queue.pop_front() {
                        frames.push(XFrame::Event(map_texts(&classes, &op)));
                    }
                }
            }
        }
        if let Some(want) = bad_action {
            self.viol(oi, "C04.uplinks.action", what, format!("op #{oi}: {act} popped for lane {l} of remote {r}, the lane's pending state calls for {want}"));
        }
        self.lend(oi, r, task, name, frames, what);
    }

}

/// Exact text of a map operation written directly (the key text is the pushed one).
fn map_texts_exact(key: &str, value: Option<&[u8]>) -> Vec<u8> {
    match value {
        Some(v) => {
            let mut t = format!("@update(key:{key}) ").into_bytes();
            t.extend_from_slice(v);
            t
        }
        None => format!("@remove(key:{key})").into_bytes(),
    }
}

fn run_seq(seq: &Seq, ctx: &mut SeqCtx<'_>) -> Result<(), String> {
    if seq.lanes.is_empty() || seq.lanes.len() > 4 || seq.remotes == 0 || seq.remotes > 2 || seq.cap < 8 {
        return Err("1..=4 lanes, 1..=2 remotes, cap >= 8".into());
    }
    if seq.lanes.iter().any(|k| !matches!(k.as_str(), "v" | "s" | "m")) {
        return Err("lane kinds are v, s, m".into());
    }
    let mut ops = vec![];
    for s in &seq.ops {
        let op = Op::parse(s).ok_or_else(|| format!("bad op {s}"))?;
        let ok = op.remote() < seq.remotes
            && op.lane().map(|l| l < seq.lanes.len()).unwrap_or(true)
            && match op {
                Op::Push(_, _, Data::Upd(k, _)) | Op::Push(_, _, Data::Rem(k)) => k < KEYS.len(),
                _ => true,
            };
        if !ok {
            return Err(format!("op {s} out of range"));
        }
        ops.push(op);
    }
    ctx.rec(0, "seq", &format!("lanes={:?} remotes={} cap={} ops={}", seq.lanes, seq.remotes, seq.cap, seq.ops.join(" ")));
    let mut tracker = RemoteTracker::new(Uuid::from_u128(IDENTITY), Text::new(NODE));
    let lane_ids: Vec<u64> = (0..seq.lanes.len()).map(|l| tracker.lane_registry().add_endpoint(Text::new(&Run::lane_name(l)))).collect();
    let mut remotes = vec![];
    for r in 0..seq.remotes {
        let (tx, rx) = byte_channel(NonZeroUsize::new(seq.cap).unwrap());
        let (ptx, prx) = promise::promise();
        tracker.insert(Uuid::from_u128(REMOTES[r]), tx, ptx);
        remotes.push(Remote {
            reader: rx,
            inbuf: BytesMut::new(),
            _done: prx,
            lent: None,
            m_lent: false,
            specials: VecDeque::new(),
            pending: BTreeMap::new(),
            link: vec![LinkState::Unlinked; seq.lanes.len()],
            empty_pushed: vec![0; seq.lanes.len()],
            bad_key_while_idle: false,
        });
    }
    let mut run = Run { seq, ctx, tracker, lane_ids, classes: key_classes(), remotes, nontrivial: false, harness_error: None };
    // The write task's protocol, in push order: data and synced for a lane only between its Linked and its Unlinked,
    // no second Linked, no Unlinked without a link. The generator follows it; an op of a shrunk or hand-written
    // sequence that does not is skipped, so that every op sequence is a legal one.
    let mut plink = vec![vec![false; seq.lanes.len()]; seq.remotes];
    for (i, op) in ops.iter().enumerate() {
        let oi = i + 1;
        let legal = match *op {
            Op::Push(r, l, _) => plink.get(r).and_then(|v| v.get(l)).copied().unwrap_or(false),
            Op::Linked(r, l) => match plink.get_mut(r).and_then(|v| v.get_mut(l)) {
                Some(x) if !*x => {
                    *x = true;
                    true
                }
                _ => false,
            },
            Op::Unlinked(r, l) => match plink.get_mut(r).and_then(|v| v.get_mut(l)) {
                Some(x) if *x => {
                    *x = false;
                    true
                }
                _ => false,
            },
            Op::NotFound(r) | Op::Done(r) => r < seq.remotes,
        };
        if !legal {
            run.ctx.count("ops.skipped_not_in_protocol", 1);
            continue;
        }
        match *op {
            Op::Push(r, l, d) => run.push(oi, r, l, d),
            Op::Linked(r, l) => run.push_special(oi, r, Special::Linked(l)),
            Op::Unlinked(r, l) => run.push_special(oi, r, Special::Unlinked(l)),
            Op::NotFound(r) => run.push_special(oi, r, Special::NotFound),
            Op::Done(r) => run.done(oi, r),
        }
        if let Some(e) = run.harness_error.take() {
            return Err(e);
        }
        if run.ctx.failed() {
            break;
        }
    }
    // Drain: complete every outstanding write until all writers are parked.
    if !run.ctx.failed() {
        let oi = ops.len() + 1;
        for r in 0..seq.remotes {
            let mut n = 0;
            while run.remotes[r].lent.is_some() && !run.ctx.failed() {
                run.done(oi, r);
                if let Some(e) = run.harness_error.take() {
                    return Err(e);
                }
                n += 1;
                if n > 10_000 {
                    return Err("drain does not terminate".into());
                }
            }
            if !run.ctx.failed() {
                // Everything owed has been written (by construction of the pop rules); the writer is parked.
                let left: Vec<usize> = run.remotes[r].pending.iter().filter(|(_, p)| p.owed()).map(|(l, _)| *l).collect();
                if !left.is_empty() || !run.remotes[r].specials.is_empty() {
                    return Err(format!("model inconsistency after drain: lanes {left:?}"));
                }
            }
        }
    }
    if run.nontrivial {
        run.ctx.count("nontrivial_seqs", 1);
        run.ctx.out.nontrivial = true;
    }
    Ok(())
}

pub struct UplinksWorld;

impl World for UplinksWorld {
    fn name(&self) -> &'static str {
        "uplinks"
    }

    fn generate(&self, seed: u64, _tier: Tier) -> Json {
        serde_json::to_value(Batch::<Seq>::seeded(seed, BATCH)).unwrap()
    }

    fn execute(&self, scenario: &Json, keep_log: bool) -> Outcome {
        execute_batch::<Seq>(scenario, keep_log, MAX_OPS, run_seq, |seq, msg| {
            Violation::new(PROP, "C04.uplinks.panic", "", format!("the uplink queue panicked: {msg}; lanes={:?} remotes={} cap={} ops={}", seq.lanes, seq.remotes, seq.cap, seq.ops.join(" ")))
        })
    }

    fn shrink(&self, scenario: &Json) -> Vec<Json> {
        shrink_json::<Seq>(scenario)
    }

    fn rule(&self) -> String {
        format!(
            "one run = {BATCH} seeded op sequences (<= {MAX_OPS} ops: push of value / supply events, map update / remove / clear over {} key texts with              Recon-equal pairs, synced markers, rare non-UTF-8 keys; push_special Linked / Unlinked / LaneNotFound; completion of the outstanding write)              over 1..=4 lanes of drawn kinds and 1..=2 remotes on a fresh real RemoteTracker/Uplinks, the writer lent out for a drawn number of ops,              sink capacity drawn from 24..4096 bytes; every popped WriteTask is checked against the reference model at pop time, executed with              WriteTask::into_future against the real byte channel and the decoded frames compared again. Non-trivial = in some sequence a special was              queued ahead of pending data, an Unlinked discarded pending data, or a synced marker was queued behind a busy writer              (probe.synced_queued_alone / _behind_data); distinct = distinct hash of the full history",
            KEYS.len()
        )
    }

    fn components(&self) -> Json {
        json!({
            "real": [
                "swimos_runtime/src/agent/task/remotes/mod.rs (RemoteTracker) with its directory: uplink/mod.rs (Uplinks::{new, push, push_special, replace_and_pop}), registry.rs (LaneRegistry), sender/mod.rs (RemoteSender) - compiled from /repo by #[path] via the crate-root shim `agent`",
                "swimos_runtime/src/agent/task/write_fut/mod.rs (WriteTask::into_future, WriteAction, SpecialAction) - by #[path]",
                "swimos_runtime/src/backpressure/{mod.rs, key/mod.rs, map_queue/mod.rs, recon/mod.rs} (ValueBackpressure, SupplyBackpressure, MapBackpressure, MapOperationQueue, ReconKey, MapOperationReconEncoder) - by #[path] as crate-root module `backpressure`",
                "swimos_byte_channel (sink), swimos_messages::protocol::{RawResponseMessageEncoder (inside RemoteSender), RawResponseMessageDecoder}, tokio_util FramedWrite"
            ],
            "stub": [
                "the write task of the agent runtime (agent/task/mod.rs): replaced by a script of pushes and write completions; Links is not involved (see world `links`)",
                "the remote: the harness drains the byte channel whenever the write future blocks and after it completes",
                "reference model: FIFO of specials + per lane newest value / item FIFO / coalescing map queue + synced flag"
            ]
        })
    }
}
