//! Shared plumbing of the component-level op-sequence worlds (`links`, `uplinks`, `queues`).
//!
//! One *run* executes a batch of independent short op sequences (the runner spawns a fresh OS thread per
//! run, which would otherwise dominate the cost of a 64-op sequence). A scenario is either
//!   `{"seed": <u64>, "batch": <n>}`   sequences are `S::generate(seed, i)` for i in 0..n, or
//!   `{"seqs": [ .. ]}`                explicit sequences (minimised replays),
//! optionally with `"strict": true` (turns the documented relaxations of a world into violations; never
//! generated, for triage only).
//!
//! Shrinking: first narrow to ONE explicit sequence, then drop chunks of ops (big chunks first), then the
//! world's own simplifications.

use serde::de::DeserializeOwned;
use serde::{Deserialize, Serialize};
use serde_json::Value as Json;

use crate::core::log::EventLog;
use crate::core::{Outcome, Violation};

pub trait SeqSpec: Serialize + DeserializeOwned + Clone + PartialEq {
    /// Sequence `idx` of the batch of run seed `seed` (pure function).
    fn generate(seed: u64, idx: u64) -> Self;
    fn op_count(&self) -> usize;
    /// The same sequence without ops `start..start + len`.
    fn without_ops(&self, start: usize, len: usize) -> Self;
    /// Further simplifications of a single sequence (smaller parameters, weaker ops), simplest first.
    fn simplify(&self) -> Vec<Self> {
        vec![]
    }
}

#[derive(Serialize, Deserialize, Clone, Debug, PartialEq)]
#[serde(bound = "S: Serialize + DeserializeOwned")]
pub struct Batch<S> {
    #[serde(default, skip_serializing_if = "Option::is_none")]
    pub seed: Option<u64>,
    #[serde(default, skip_serializing_if = "Option::is_none")]
    pub batch: Option<u64>,
    #[serde(default, skip_serializing_if = "Option::is_none")]
    pub seqs: Option<Vec<S>>,
    #[serde(default, skip_serializing_if = "std::ops::Not::not")]
    pub strict: bool,
    /// Start value of std's hash keys on the run's thread (iteration order and bucket layout of the product's
    /// HashMaps); 0 = the legacy constant. Read by the runner before the world executes.
    #[serde(default, skip_serializing_if = "hash_seed_is_zero")]
    pub hash_seed: u64,
}

fn hash_seed_is_zero(v: &u64) -> bool {
    *v == 0
}

impl<S: SeqSpec> Batch<S> {
    pub fn seeded(seed: u64, batch: u64) -> Self {
        Batch { seed: Some(seed), batch: Some(batch), seqs: None, strict: false, hash_seed: crate::core::rng::Rng::new(seed).sub("hash").next_u64() | 1 }
    }

    pub fn explicit(seqs: Vec<S>, strict: bool) -> Self {
        Batch { seed: None, batch: None, seqs: Some(seqs), strict, hash_seed: 0 }
    }

    fn explicit_like(&self, seqs: Vec<S>) -> Self {
        Batch { seed: None, batch: None, seqs: Some(seqs), strict: self.strict, hash_seed: self.hash_seed }
    }

    pub fn parse(j: &Json) -> Result<Self, String>
    where
        S: DeserializeOwned,
    {
        serde_json::from_value::<Batch<S>>(j.clone()).map_err(|e| format!("bad scenario: {e}"))
    }

    pub fn sequences(&self) -> Result<Vec<S>, String> {
        match (&self.seqs, self.seed) {
            (Some(s), _) => Ok(s.clone()),
            (None, Some(seed)) => {
                let n = self.batch.unwrap_or(1);
                if n > 100_000 {
                    return Err(format!("batch {n} too large"));
                }
                Ok((0..n).map(|i| S::generate(seed, i)).collect())
            }
            (None, None) => Err("neither seqs nor seed given".to_string()),
        }
    }

    pub fn shrink(&self) -> Vec<Self> {
        let Ok(seqs) = self.sequences() else { return vec![] };
        let mut out = vec![];
        if self.seqs.is_none() || seqs.len() > 1 {
            // Narrow to one sequence, shortest first.
            let mut idx: Vec<usize> = (0..seqs.len()).collect();
            idx.sort_by_key(|i| (seqs[*i].op_count(), *i));
            for i in idx {
                out.push(self.explicit_like(vec![seqs[i].clone()]));
            }
            return out;
        }
        let Some(seq) = seqs.first() else { return out };
        let len = seq.op_count();
        let mut chunk = len / 2;
        while chunk >= 1 {
            let mut start = 0;
            while start + chunk <= len {
                out.push(self.explicit_like(vec![seq.without_ops(start, chunk)]));
                start += chunk;
            }
            chunk /= 2;
        }
        for s in seq.simplify() {
            out.push(self.explicit_like(vec![s]));
        }
        out
    }
}

pub fn shrink_json<S: SeqSpec>(scenario: &Json) -> Vec<Json> {
    let Ok(b) = Batch::<S>::parse(scenario) else { return vec![] };
    b.shrink().into_iter().map(|s| serde_json::to_value(s).unwrap()).collect()
}

/// What the checker of one sequence works with.
pub struct SeqCtx<'a> {
    /// Index of the sequence in the batch.
    pub si: usize,
    pub strict: bool,
    pub log: &'a mut EventLog,
    pub out: &'a mut Outcome,
    /// Violations of this sequence (at most one per signature is kept).
    pub found: Vec<Violation>,
}

impl<'a> SeqCtx<'a> {
    pub fn rec(&mut self, oi: usize, kind: &str, detail: &str) {
        self.log.rec((self.si * 1000 + oi) as u64, kind, detail);
    }

    /// Records a history line whose text is only rendered when the log is kept or hashed (always hashed).
    pub fn count(&mut self, key: &str, n: u64) {
        self.out.count(key, n);
    }

    pub fn violate(&mut self, oi: usize, v: Violation) {
        self.log.rec((self.si * 1000 + oi) as u64, "VIOLATION", &v.sig);
        if !self.found.iter().any(|w| w.sig == v.sig) {
            self.found.push(v);
        }
    }

    pub fn failed(&self) -> bool {
        !self.found.is_empty()
    }
}

/// Runs every sequence of the batch through `run_seq` (panics of the code under test are caught and
/// turned into a violation by `on_panic`), collects violations (one per signature per run) and fills the
/// bookkeeping fields of the outcome.
pub fn execute_batch<S: SeqSpec>(
    scenario: &Json,
    keep_log: bool,
    max_ops: usize,
    run_seq: impl Fn(&S, &mut SeqCtx<'_>) -> Result<(), String>,
    on_panic: impl Fn(&S, &str) -> Violation,
) -> Outcome {
    let sc = match Batch::<S>::parse(scenario) {
        Ok(s) => s,
        Err(e) => return Outcome { harness_error: Some(e), ..Default::default() },
    };
    let seqs = match sc.sequences() {
        Ok(s) => s,
        Err(e) => return Outcome { harness_error: Some(e), ..Default::default() },
    };
    let mut out = Outcome::default();
    let mut log = EventLog::new(keep_log);
    let mut violations: Vec<Violation> = vec![];
    for (si, seq) in seqs.iter().enumerate() {
        if seq.op_count() > max_ops {
            out.harness_error = Some(format!("sequence {si} has more than {max_ops} ops"));
            break;
        }
        out.steps += seq.op_count() as u64;
        let r = {
            let mut ctx = SeqCtx { si, strict: sc.strict, log: &mut log, out: &mut out, found: vec![] };
            let r = std::panic::catch_unwind(std::panic::AssertUnwindSafe(|| run_seq(seq, &mut ctx)));
            (r, ctx.found)
        };
        let (r, found) = r;
        for v in found {
            if !violations.iter().any(|w| w.sig == v.sig) {
                violations.push(v);
            }
        }
        match r {
            Ok(Ok(())) => {}
            Ok(Err(e)) => {
                out.harness_error = Some(format!("sequence {si}: {e}"));
                break;
            }
            Err(p) => {
                let msg = p
                    .downcast_ref::<&str>()
                    .map(|s| s.to_string())
                    .or_else(|| p.downcast_ref::<String>().cloned())
                    .unwrap_or_else(|| "panic".to_string());
                let v = on_panic(seq, &msg);
                log.rec((si * 1000 + 999) as u64, "PANIC", &v.sig);
                if !violations.iter().any(|w| w.sig == v.sig) {
                    violations.push(v);
                }
            }
        }
    }
    out.count("seqs", seqs.len() as u64);
    out.violations = violations;
    out.log_hash = log.hash();
    out.log_lines = log.lines().to_vec();
    out
}
