//! W-LINKS: op-sequence simulator for the link registry of the agent runtime's write task (property C20).
//!
//! Code under test: `/repo/runtime/swimos_runtime/src/agent/task/links.rs` (`Links`, private in
//! `swimos_runtime`; the *real source file* is compiled into this crate through the crate-root shim
//! `crate::agent` = `src/shims/rt_agent.rs`, nothing is copied) together with the real, public
//! `swimos_runtime::agent::reporting::{UplinkReporter, UplinkReportReader}`.
//!
//! One run = a batch of independent sequences. Every sequence gets a fresh `Links` (with or without an
//! aggregate reporter), <= 4 lanes x <= 4 remotes and <= 64 ops:
//!
//!   `i<l>,<r>` insert(lane, remote)            `r<l>,<r>` remove(lane, remote) (TriggerUnlink judged)
//!   `R<r>`     remove_remote(remote)           `L<l>`     remove_lane(lane)   (iterator fully consumed, as the
//!   `A`        remove_all_links()                          write task does; the yielded TriggerUnlinks are judged)
//!   `g<l>`     register_reporter(lane, fresh UplinkReporter)
//!   `s<l>`     count_single(lane)              `b<l>`     count_broadcast(lane)
//!   `c<l>` / `cA`  count_commands(1) on the lane's / the aggregate reporter (what the read task does)
//!   `n<l>` / `N`   snapshot of the lane's / the aggregate reader
//!
//! Reference model (from the text of C20): the set of (lane, remote) pairs, and per reporter the number of
//! events / commands counted so far. After EVERY op (`dense` sequences; otherwise at the drawn snapshot ops and
//! at the end) every live reader is snapshotted:
//!
//!   C20.links.lane_count     lane reader `link_count` == number of remotes linked to that lane
//!   C20.links.agg_count      aggregate `link_count` == number of pairs
//!   C20.links.reporter_lost  the reader of a registered lane stopped reporting although the lane was not removed
//!                            (a reporter must survive the removal of the lane's last remote by ANY path:
//!                            remove, remove_remote, remove_all_links)
//!   C20.links.lane_events / C20.links.agg_events / C20.links.commands
//!                            sum of all snapshots == number of events (count_single: 1, count_broadcast: one per
//!                            linked remote) / commands counted; `snapshot()` consumes the counters, so the
//!                            harness accumulates every snapshot it takes
//!   C20.links.index          `linked_from`, `linked_to`, `is_linked` agree with the pair set in both directions
//!                            (`linked_to(r)` is `None` iff r has no link: `remove_remote_if_idle` depends on it)
//!   C20.links.unlinks        remove_lane / remove_all_links yield exactly the removed links; the `schedule_prune`
//!                            flag of remove / remove_lane is set iff the remote had links and has none left
//!   C20.links.panic          a panic of the registry
//! The signature detail is the kind of the last mutating op (`after_remove_lane`, ...), never a value.
//!
//! Documented relaxations (what the product cannot reach is not demanded; `"strict": true` turns them into
//! violations `C20.links.lane_count:late_registration` / `C20.links.agg_events:unknown_lane`):
//!   * `register_reporter` does not publish the current link count; in the product a lane's reporter is
//!     registered together with its fresh lane id, before any link can exist. For a reporter registered on a
//!     lane that already has links the lane `link_count` is judged only from the next change of that lane's
//!     remote set on (probe `probe.register_late`).
//!   * `count_single` on a lane the registry has never seen (no reporter, never linked, or removed by
//!     remove_lane) counts nothing, not even for the aggregate (probe `probe.count_single_unknown_lane`); in the
//!     product every lane of an agent with reporting has a reporter (unless the introspection registration
//!     channel is closed).
//!   * with no aggregate reporter `count_single` / `count_broadcast` count nothing at all (in the product lane
//!     reporters exist only together with the aggregate); lane event sums are not judged in such sequences.
//!   * `remove_lane` drops the lane's reporter by design (unit test `removing_lane_drops_reporter`); the reader
//!     is simply forgotten by the model.
//!   * counting from several threads is not explored here (sequential ops only).

use std::collections::{BTreeMap, BTreeSet};

use serde::{Deserialize, Serialize};
use serde_json::{json, Value as Json};
use uuid::Uuid;

use crate::agent::reporting::{UplinkReportReader, UplinkReporter};
use crate::agent::task::links::{Links, TriggerUnlink};
use crate::core::rng::{mix, Rng};
use crate::core::{Outcome, Tier, Violation, World};
use crate::worlds::opseq::{execute_batch, shrink_json, Batch, SeqCtx, SeqSpec};

const PROP: &str = "C20";
pub const BATCH: u64 = 128;
pub const MAX_OPS: usize = 64;
const LANE_IDS: [u64; 4] = [7, 38, 999, 58_349_209];
const REMOTE_IDS: [u128; 4] = [567, 97_263, 111, 0xffff_0000_ffff_0000_1234];

fn lane_id(l: usize) -> u64 {
    LANE_IDS[l]
}

fn remote_id(r: usize) -> Uuid {
    Uuid::from_u128(REMOTE_IDS[r])
}

#[derive(Clone, Copy, Debug, PartialEq, Eq)]
pub enum Op {
    Insert(usize, usize),
    Remove(usize, usize),
    RemoveRemote(usize),
    RemoveLane(usize),
    RemoveAll,
    Register(usize),
    CountSingle(usize),
    CountBroadcast(usize),
    /// `None` = the aggregate reporter.
    CountCommand(Option<usize>),
    Snapshot(Option<usize>),
}

impl Op {
    pub fn code(&self) -> String {
        match self {
            Op::Insert(l, r) => format!("i{l},{r}"),
            Op::Remove(l, r) => format!("r{l},{r}"),
            Op::RemoveRemote(r) => format!("R{r}"),
            Op::RemoveLane(l) => format!("L{l}"),
            Op::RemoveAll => "A".to_string(),
            Op::Register(l) => format!("g{l}"),
            Op::CountSingle(l) => format!("s{l}"),
            Op::CountBroadcast(l) => format!("b{l}"),
            Op::CountCommand(Some(l)) => format!("c{l}"),
            Op::CountCommand(None) => "cA".to_string(),
            Op::Snapshot(Some(l)) => format!("n{l}"),
            Op::Snapshot(None) => "N".to_string(),
        }
    }

    pub fn parse(s: &str) -> Option<Op> {
        match s {
            "A" => return Some(Op::RemoveAll),
            "N" => return Some(Op::Snapshot(None)),
            "cA" => return Some(Op::CountCommand(None)),
            _ => {}
        }
        let (k, rest) = s.split_at(1);
        let one = || rest.parse::<usize>().ok();
        let two = || {
            let (a, b) = rest.split_once(',')?;
            Some((a.parse::<usize>().ok()?, b.parse::<usize>().ok()?))
        };
        Some(match k {
            "i" => two().map(|(l, r)| Op::Insert(l, r))?,
            "r" => two().map(|(l, r)| Op::Remove(l, r))?,
            "R" => Op::RemoveRemote(one()?),
            "L" => Op::RemoveLane(one()?),
            "g" => Op::Register(one()?),
            "s" => Op::CountSingle(one()?),
            "b" => Op::CountBroadcast(one()?),
            "c" => Op::CountCommand(Some(one()?)),
            "n" => Op::Snapshot(Some(one()?)),
            _ => return None,
        })
    }

    fn kind(&self) -> &'static str {
        match self {
            Op::Insert(..) => "insert",
            Op::Remove(..) => "remove",
            Op::RemoveRemote(_) => "remove_remote",
            Op::RemoveLane(_) => "remove_lane",
            Op::RemoveAll => "remove_all",
            Op::Register(_) => "register",
            Op::CountSingle(_) => "count_single",
            Op::CountBroadcast(_) => "count_broadcast",
            Op::CountCommand(_) => "count_command",
            Op::Snapshot(_) => "snapshot",
        }
    }

    fn mutates(&self) -> bool {
        matches!(self, Op::Insert(..) | Op::Remove(..) | Op::RemoveRemote(_) | Op::RemoveLane(_) | Op::RemoveAll | Op::Register(_))
    }

    fn in_range(&self, lanes: usize, remotes: usize) -> bool {
        match *self {
            Op::Insert(l, r) | Op::Remove(l, r) => l < lanes && r < remotes,
            Op::RemoveRemote(r) => r < remotes,
            Op::RemoveLane(l) | Op::Register(l) | Op::CountSingle(l) | Op::CountBroadcast(l) => l < lanes,
            Op::CountCommand(Some(l)) | Op::Snapshot(Some(l)) => l < lanes,
            Op::RemoveAll | Op::CountCommand(None) | Op::Snapshot(None) => true,
        }
    }
}

#[derive(Clone, Debug, PartialEq, Serialize, Deserialize)]
pub struct Seq {
    pub lanes: usize,
    pub remotes: usize,
    /// Whether the registry has an aggregate reporter.
    pub agg: bool,
    /// Snapshot every live reader after every op (otherwise only at the drawn snapshot ops and at the end).
    pub dense: bool,
    pub ops: Vec<String>,
}

impl SeqSpec for Seq {
    fn generate(seed: u64, idx: u64) -> Seq {
        gen_seq(&mut Rng::new(mix(seed, "links-seq", idx)))
    }

    fn op_count(&self) -> usize {
        self.ops.len()
    }

    fn without_ops(&self, start: usize, len: usize) -> Seq {
        let mut s = self.clone();
        s.ops.drain(start..start + len);
        s
    }

    fn simplify(&self) -> Vec<Seq> {
        let mut out = vec![];
        if !self.dense {
            out.push(Seq { dense: true, ..self.clone() });
        }
        // Fewer lanes / remotes when the highest index is unused.
        let ops: Vec<Op> = self.ops.iter().filter_map(|s| Op::parse(s)).collect();
        if self.lanes > 1 && ops.iter().all(|o| o.in_range(self.lanes - 1, self.remotes)) {
            out.push(Seq { lanes: self.lanes - 1, ..self.clone() });
        }
        if self.remotes > 1 && ops.iter().all(|o| o.in_range(self.lanes, self.remotes - 1)) {
            out.push(Seq { remotes: self.remotes - 1, ..self.clone() });
        }
        out
    }
}

fn gen_seq(rng: &mut Rng) -> Seq {
    let lanes = rng.range(1, 4) as usize;
    let remotes = rng.range(1, 4) as usize;
    let agg = !rng.chance(1, 8);
    let dense = !rng.chance(1, 4);
    let len = match rng.below(4) {
        0 => rng.range(3, 12),
        1 => rng.range(10, 30),
        _ => rng.range(24, MAX_OPS as u64),
    } as usize;
    // Swarm weights per sequence.
    let w_insert = rng.range(3, 8);
    let w_remove = rng.range(1, 4);
    let w_remove_remote = rng.range(0, 3);
    let w_remove_lane = rng.range(0, 2);
    let w_remove_all = rng.range(0, 1);
    let w_register = rng.range(1, 3);
    let w_count = rng.range(1, 5);
    let w_cmd = rng.range(0, 2);
    let w_snap = rng.range(0, 3);
    // Most sequences register reporters up front (as the product does), some register late or never.
    let early = rng.below(4) != 0;
    let mut ops: Vec<Op> = vec![];
    let mut pairs: BTreeSet<(usize, usize)> = BTreeSet::new();
    if early {
        for l in 0..lanes {
            if rng.chance(5, 6) {
                ops.push(Op::Register(l));
            }
        }
    }
    while ops.len() < len {
        let kinds: [(u64, u8); 9] = [
            (w_insert, 0),
            (w_remove, 1),
            (w_remove_remote, 2),
            (w_remove_lane, 3),
            (w_remove_all, 4),
            (w_register, 5),
            (w_count, 6),
            (w_cmd, 7),
            (w_snap, 8),
        ];
        let l = rng.usize_below(lanes);
        let r = rng.usize_below(remotes);
        let op = match *rng.pick_weighted(&kinds) {
            0 => Op::Insert(l, r),
            1 => {
                // Mostly an existing link.
                if !pairs.is_empty() && rng.chance(4, 5) {
                    let v: Vec<_> = pairs.iter().copied().collect();
                    let (l, r) = *rng.pick(&v);
                    Op::Remove(l, r)
                } else {
                    Op::Remove(l, r)
                }
            }
            2 => Op::RemoveRemote(r),
            3 => Op::RemoveLane(l),
            4 => Op::RemoveAll,
            5 => Op::Register(l),
            6 => {
                if rng.chance(1, 2) {
                    Op::CountSingle(l)
                } else {
                    Op::CountBroadcast(l)
                }
            }
            7 => Op::CountCommand(if rng.chance(1, 2) { Some(l) } else { None }),
            _ => Op::Snapshot(if rng.chance(2, 3) { Some(l) } else { None }),
        };
        match op {
            Op::Insert(l, r) => {
                pairs.insert((l, r));
            }
            Op::Remove(l, r) => {
                pairs.remove(&(l, r));
            }
            Op::RemoveRemote(r) => pairs.retain(|p| p.1 != r),
            Op::RemoveLane(l) => pairs.retain(|p| p.0 != l),
            Op::RemoveAll => pairs.clear(),
            _ => {}
        }
        ops.push(op);
    }
    Seq { lanes, remotes, agg, dense, ops: ops.iter().map(|o| o.code()).collect() }
}

// ---------------------------------------------------------------------------------------------
// Execution + oracles
// ---------------------------------------------------------------------------------------------

struct Tracked {
    reporter: UplinkReporter,
    reader: UplinkReportReader,
    exp_events: u64,
    obs_events: u64,
    exp_cmds: u64,
    obs_cmds: u64,
    /// Late registration: the link count is judged only after the lane's remote set changed.
    count_unjudged: bool,
}

impl Tracked {
    fn new(reporter: UplinkReporter) -> Tracked {
        let reader = reporter.reader();
        Tracked { reporter, reader, exp_events: 0, obs_events: 0, exp_cmds: 0, obs_cmds: 0, count_unjudged: false }
    }
}

struct Run<'a, 'b> {
    seq: &'a Seq,
    ctx: &'a mut SeqCtx<'b>,
    links: Links,
    pairs: BTreeSet<(usize, usize)>,
    lanes: BTreeMap<usize, Tracked>,
    /// Lanes the registry has an entry for (registered or linked since the last remove_lane).
    known: BTreeSet<usize>,
    agg: Option<Tracked>,
    last_mut: &'static str,
    /// Probes for the non-triviality rule.
    nt_last_removed: bool,
    nt_shared_lane_removed: bool,
}

impl<'a, 'b> Run<'a, 'b> {
    fn viol(&mut self, oi: usize, rule: &str, sig: &str, detail: String) {
        let v = Violation::new(PROP, rule, sig, format!("{detail}; lanes={} remotes={} agg={} ops={}", self.seq.lanes, self.seq.remotes, self.seq.agg, self.seq.ops.join(" ")));
        self.ctx.violate(oi, v);
    }

    fn remotes_of(&self, l: usize) -> BTreeSet<usize> {
        self.pairs.iter().filter(|p| p.0 == l).map(|p| p.1).collect()
    }

    fn lanes_of(&self, r: usize) -> BTreeSet<usize> {
        self.pairs.iter().filter(|p| p.1 == r).map(|p| p.0).collect()
    }

    fn lane_changed(&mut self, l: usize) {
        if let Some(t) = self.lanes.get_mut(&l) {
            t.count_unjudged = false;
        }
    }

    fn note_last_removed(&mut self, l: usize, had: usize, path: &str) {
        if had > 0 && self.remotes_of(l).is_empty() && self.lanes.contains_key(&l) {
            self.ctx.count(&format!("probe.last_remote_removed.{path}"), 1);
            self.nt_last_removed = true;
        }
    }

    fn apply(&mut self, oi: usize, op: Op) {
        self.ctx.count(&format!("ops.{}", op.kind()), 1);
        if op.mutates() {
            self.last_mut = op.kind();
        }
        match op {
            Op::Insert(l, r) => {
                self.links.insert(lane_id(l), remote_id(r));
                if self.pairs.insert((l, r)) {
                    self.lane_changed(l);
                } else {
                    self.ctx.count("probe.insert_duplicate", 1);
                }
                self.known.insert(l);
                self.ctx.rec(oi, "insert", &format!("lane {l} remote {r}"));
            }
            Op::Remove(l, r) => {
                let had_links = !self.lanes_of(r).is_empty();
                let had = self.remotes_of(l).len();
                let TriggerUnlink { remote_id: rid, schedule_prune } = self.links.remove(lane_id(l), remote_id(r));
                if self.pairs.remove(&(l, r)) {
                    self.lane_changed(l);
                    self.note_last_removed(l, had, "remove");
                } else {
                    self.ctx.count("probe.remove_absent", 1);
                }
                let none_left = self.lanes_of(r).is_empty();
                self.ctx.rec(oi, "remove", &format!("lane {l} remote {r} -> prune={schedule_prune}"));
                if rid != remote_id(r) {
                    self.viol(oi, "C20.links.unlinks", "remove:wrong_remote", format!("op #{oi} remove({l},{r}) answered for remote {rid}"));
                }
                // Judged only when the remote had links (the doc says "no longer has any links").
                if had_links && schedule_prune != none_left {
                    let sig = if schedule_prune { "remove:prune_with_links" } else { "remove:no_prune_without_links" };
                    self.viol(oi, "C20.links.unlinks", sig, format!("op #{oi} remove({l},{r}): schedule_prune={schedule_prune} but the remote has {} links left", self.lanes_of(r).len()));
                }
                if !had_links && schedule_prune {
                    self.ctx.count("probe.prune_for_unlinked_remote", 1);
                }
            }
            Op::RemoveRemote(r) => {
                let lanes = self.lanes_of(r);
                let before: Vec<(usize, usize)> = lanes.iter().map(|l| (*l, self.remotes_of(*l).len())).collect();
                self.links.remove_remote(remote_id(r));
                self.pairs.retain(|p| p.1 != r);
                for (l, had) in before {
                    self.lane_changed(l);
                    self.note_last_removed(l, had, "remove_remote");
                }
                self.ctx.rec(oi, "rm_remote", &format!("remote {r} (was linked to {lanes:?})"));
            }
            Op::RemoveLane(l) => {
                let remotes = self.remotes_of(l);
                if remotes.iter().any(|r| self.lanes_of(*r).len() > 1) {
                    self.ctx.count("probe.remove_lane.shared_remote", 1);
                    self.nt_shared_lane_removed = true;
                }
                let got: Vec<TriggerUnlink> = self.links.remove_lane(lane_id(l)).collect();
                self.pairs.retain(|p| p.0 != l);
                if self.lanes.remove(&l).is_some() {
                    self.ctx.count("probe.remove_lane.reporter_dropped", 1);
                }
                self.known.remove(&l);
                let mut got_sorted: Vec<(usize, bool)> = got
                    .iter()
                    .map(|t| ((0..4).find(|r| remote_id(*r) == t.remote_id).unwrap_or(99), t.schedule_prune))
                    .collect();
                got_sorted.sort();
                self.ctx.rec(oi, "rm_lane", &format!("lane {l} -> unlinks {got_sorted:?}"));
                let want: Vec<(usize, bool)> = remotes.iter().map(|r| (*r, self.lanes_of(*r).is_empty())).collect();
                let got_ids: Vec<usize> = got_sorted.iter().map(|p| p.0).collect();
                let want_ids: Vec<usize> = want.iter().map(|p| p.0).collect();
                if got_ids != want_ids {
                    self.viol(oi, "C20.links.unlinks", "remove_lane:remotes", format!("op #{oi} remove_lane({l}) unlinked remotes {got_ids:?}, linked were {want_ids:?}"));
                } else if got_sorted != want {
                    self.viol(oi, "C20.links.unlinks", "remove_lane:prune_flag", format!("op #{oi} remove_lane({l}) answered (remote, prune) {got_sorted:?}, expected {want:?}"));
                }
            }
            Op::RemoveAll => {
                let before: Vec<(usize, usize)> = (0..self.seq.lanes).map(|l| (l, self.remotes_of(l).len())).collect();
                let got: BTreeSet<(u64, Uuid)> = self.links.remove_all_links().collect();
                let want: BTreeSet<(u64, Uuid)> = self.pairs.iter().map(|(l, r)| (lane_id(*l), remote_id(*r))).collect();
                let n = self.pairs.len();
                self.pairs.clear();
                for (l, had) in before {
                    if had > 0 {
                        self.lane_changed(l);
                    }
                    self.note_last_removed(l, had, "remove_all");
                }
                self.ctx.rec(oi, "rm_all", &format!("{n} links -> {} yielded", got.len()));
                if got != want {
                    self.viol(oi, "C20.links.unlinks", "remove_all", format!("op #{oi} remove_all_links yielded {} links, {} existed (or different ones)", got.len(), want.len()));
                }
            }
            Op::Register(l) => {
                // Collect what the reporter being replaced has counted so far.
                let mut carried = None;
                if let Some(old) = self.lanes.remove(&l) {
                    self.ctx.count("probe.register_replaces", 1);
                    let mut old = old;
                    if let Some(s) = old.reader.snapshot() {
                        old.obs_events += s.event_count;
                        old.obs_cmds += s.command_count;
                    }
                    carried = Some(old);
                }
                if let Some(old) = carried {
                    if self.seq.agg && old.obs_events != old.exp_events {
                        self.viol(oi, "C20.links.lane_events", "at_replacement", format!("op #{oi}: the reporter of lane {l} being replaced reported {} events in total, {} were counted", old.obs_events, old.exp_events));
                    }
                }
                let reporter = UplinkReporter::default();
                let mut t = Tracked::new(reporter.clone());
                let n = self.remotes_of(l).len();
                if n > 0 {
                    t.count_unjudged = true;
                    self.ctx.count("probe.register_late", 1);
                }
                self.links.register_reporter(lane_id(l), reporter);
                self.lanes.insert(l, t);
                self.known.insert(l);
                self.ctx.rec(oi, "register", &format!("lane {l} (links now {n})"));
            }
            Op::CountSingle(l) => {
                self.links.count_single(lane_id(l));
                let mut note = "";
                if self.seq.agg {
                    if self.known.contains(&l) {
                        if let Some(t) = self.lanes.get_mut(&l) {
                            t.exp_events += 1;
                        }
                        if let Some(a) = self.agg.as_mut() {
                            a.exp_events += 1;
                        }
                    } else {
                        self.ctx.count("probe.count_single_unknown_lane", 1);
                        note = " (lane unknown to the registry)";
                        if self.ctx.strict {
                            if let Some(a) = self.agg.as_mut() {
                                a.exp_events += 1;
                            }
                        }
                    }
                }
                self.ctx.rec(oi, "single", &format!("lane {l}{note}"));
            }
            Op::CountBroadcast(l) => {
                self.links.count_broadcast(lane_id(l));
                let n = self.remotes_of(l).len() as u64;
                if self.seq.agg {
                    if let Some(t) = self.lanes.get_mut(&l) {
                        t.exp_events += n;
                    }
                    if let Some(a) = self.agg.as_mut() {
                        a.exp_events += n;
                    }
                }
                if n == 0 {
                    self.ctx.count("probe.broadcast_no_links", 1);
                }
                self.ctx.rec(oi, "broadcast", &format!("lane {l} x{n}"));
            }
            Op::CountCommand(target) => {
                let t = match target {
                    Some(l) => self.lanes.get_mut(&l),
                    None => self.agg.as_mut(),
                };
                if let Some(t) = t {
                    t.reporter.count_commands(1);
                    t.exp_cmds += 1;
                    self.ctx.rec(oi, "command", &format!("{target:?}"));
                } else {
                    self.ctx.rec(oi, "command", &format!("{target:?} (no reporter)"));
                }
            }
            Op::Snapshot(target) => {
                self.ctx.rec(oi, "snapshot", &format!("{target:?}"));
                self.snapshot(oi, target, target.is_none());
            }
        }
    }

    /// Snapshots one lane reader (`lane`), or the aggregate (`agg`), and evaluates the count oracles.
    fn snapshot(&mut self, oi: usize, lane: Option<usize>, agg: bool) {
        let after = self.last_mut;
        if let Some(l) = lane {
            let want = self.remotes_of(l).len() as u64;
            let judged_events = self.seq.agg;
            let strict = self.ctx.strict;
            let Some(t) = self.lanes.get_mut(&l) else { return };
            match t.reader.snapshot() {
                None => {
                    self.lanes.remove(&l);
                    self.viol(oi, "C20.links.reporter_lost", &format!("after_{after}"), format!("after op #{oi} the reader of lane {l} reports nothing although the lane was not removed"));
                }
                Some(s) => {
                    t.obs_events += s.event_count;
                    t.obs_cmds += s.command_count;
                    let (oe, ee, oc, ec, unj) = (t.obs_events, t.exp_events, t.obs_cmds, t.exp_cmds, t.count_unjudged);
                    self.ctx.rec(oi, "snap", &format!("lane {l} links={} events+{} cmds+{}", s.link_count, s.event_count, s.command_count));
                    if s.link_count != want {
                        if unj && !strict {
                            self.ctx.count("probe.late_registration_count_unjudged", 1);
                        } else {
                            let sig = if unj { "late_registration".to_string() } else { format!("after_{after}") };
                            self.viol(oi, "C20.links.lane_count", &sig, format!("after op #{oi} lane {l} reports {} uplinks, {want} remotes are linked", s.link_count));
                        }
                    }
                    if judged_events && oe != ee {
                        // Resynchronise so that one loss is reported once.
                        if let Some(t) = self.lanes.get_mut(&l) {
                            t.obs_events = ee;
                        }
                        self.viol(oi, "C20.links.lane_events", if oe < ee { "lost" } else { "extra" }, format!("after op #{oi} the snapshots of lane {l} add up to {oe} events, {ee} were counted"));
                    }
                    if oc != ec {
                        if let Some(t) = self.lanes.get_mut(&l) {
                            t.obs_cmds = ec;
                        }
                        self.viol(oi, "C20.links.commands", "lane", format!("after op #{oi} the snapshots of lane {l} add up to {oc} commands, {ec} were counted"));
                    }
                }
            }
        }
        if agg {
            let want = self.pairs.len() as u64;
            let strict = self.ctx.strict;
            let Some(t) = self.agg.as_mut() else { return };
            match t.reader.snapshot() {
                None => {
                    self.agg = None;
                    self.viol(oi, "C20.links.reporter_lost", "aggregate", format!("after op #{oi} the aggregate reader reports nothing"));
                }
                Some(s) => {
                    t.obs_events += s.event_count;
                    t.obs_cmds += s.command_count;
                    let (oe, ee, oc, ec) = (t.obs_events, t.exp_events, t.obs_cmds, t.exp_cmds);
                    // Resynchronise so that one loss is reported once.
                    t.obs_events = ee;
                    t.obs_cmds = ec;
                    self.ctx.rec(oi, "snap", &format!("aggregate links={} events+{} cmds+{}", s.link_count, s.event_count, s.command_count));
                    if s.link_count != want {
                        self.viol(oi, "C20.links.agg_count", &format!("after_{after}"), format!("after op #{oi} the aggregate reports {} uplinks, {want} links exist", s.link_count));
                    }
                    if oe != ee {
                        let sig = if strict && oe < ee { "unknown_lane_or_lost" } else if oe < ee { "lost" } else { "extra" };
                        self.viol(oi, "C20.links.agg_events", sig, format!("after op #{oi} the aggregate snapshots add up to {oe} events, {ee} were counted"));
                    }
                    if oc != ec {
                        self.viol(oi, "C20.links.commands", "aggregate", format!("after op #{oi} the aggregate snapshots add up to {oc} commands, {ec} were counted"));
                    }
                }
            }
        }
    }

    fn snapshot_all(&mut self, oi: usize) {
        let lanes: Vec<usize> = self.lanes.keys().copied().collect();
        for l in lanes {
            self.snapshot(oi, Some(l), false);
        }
        self.snapshot(oi, None, true);
    }

    /// Both indexes against the pair set.
    fn check_index(&mut self, oi: usize) {
        let after = self.last_mut;
        for l in 0..self.seq.lanes {
            let want: BTreeSet<Uuid> = self.remotes_of(l).iter().map(|r| remote_id(*r)).collect();
            let got: Option<BTreeSet<Uuid>> = self.links.linked_from(lane_id(l)).map(|s| s.iter().copied().collect());
            let ok = match &got {
                None => want.is_empty(),
                Some(g) => !g.is_empty() && *g == want,
            };
            if !ok {
                self.viol(oi, "C20.links.index", &format!("linked_from:after_{after}"), format!("after op #{oi} linked_from(lane {l}) has {:?} remotes, the reference has {}", got.map(|g| g.len()), want.len()));
            }
            for r in 0..self.seq.remotes {
                let w = self.pairs.contains(&(l, r));
                if self.links.is_linked(remote_id(r), lane_id(l)) != w {
                    self.viol(oi, "C20.links.index", &format!("is_linked:after_{after}"), format!("after op #{oi} is_linked(remote {r}, lane {l}) = {}, reference {w}", !w));
                }
            }
        }
        for r in 0..self.seq.remotes {
            let want: BTreeSet<u64> = self.lanes_of(r).iter().map(|l| lane_id(*l)).collect();
            let got: Option<BTreeSet<u64>> = self.links.linked_to(remote_id(r)).map(|s| s.iter().copied().collect());
            let ok = match &got {
                None => want.is_empty(),
                Some(g) => !g.is_empty() && *g == want,
            };
            if !ok {
                let what = match &got {
                    Some(g) if g.is_empty() => "empty_entry",
                    Some(g) if g.len() < want.len() => "lanes_missing",
                    Some(_) => "stale_lanes",
                    None => "entry_missing",
                };
                self.viol(oi, "C20.links.index", &format!("linked_to:{what}:after_{after}"), format!("after op #{oi} linked_to(remote {r}) = {:?}, the reference has lanes {:?}", got, want));
            }
        }
    }
}

fn run_seq(seq: &Seq, ctx: &mut SeqCtx<'_>) -> Result<(), String> {
    if seq.lanes == 0 || seq.lanes > 4 || seq.remotes == 0 || seq.remotes > 4 {
        return Err("lanes and remotes must be 1..=4".into());
    }
    let mut ops = vec![];
    for s in &seq.ops {
        let op = Op::parse(s).ok_or_else(|| format!("bad op {s}"))?;
        if !op.in_range(seq.lanes, seq.remotes) {
            return Err(format!("op {s} out of range"));
        }
        ops.push(op);
    }
    ctx.rec(0, "seq", &format!("lanes={} remotes={} agg={} dense={} ops={}", seq.lanes, seq.remotes, seq.agg, seq.dense, seq.ops.join(" ")));
    let agg = if seq.agg { Some(Tracked::new(UplinkReporter::default())) } else { None };
    let links = Links::new(agg.as_ref().map(|t| t.reporter.clone()));
    let mut run = Run {
        seq,
        ctx,
        links,
        pairs: BTreeSet::new(),
        lanes: BTreeMap::new(),
        known: BTreeSet::new(),
        agg,
        last_mut: "start",
        nt_last_removed: false,
        nt_shared_lane_removed: false,
    };
    for (i, op) in ops.iter().enumerate() {
        let oi = i + 1;
        run.apply(oi, *op);
        run.check_index(oi);
        if seq.dense {
            run.snapshot_all(oi);
        }
        if run.ctx.failed() {
            // The registry has diverged from the model; later answers of this sequence are not judged.
            break;
        }
    }
    if !run.ctx.failed() {
        run.snapshot_all(ops.len() + 1);
    }
    if run.nt_last_removed || run.nt_shared_lane_removed {
        run.ctx.count("nontrivial_seqs", 1);
        run.ctx.out.nontrivial = true;
    }
    if seq.agg {
        run.ctx.count("seqs.with_aggregate", 1);
    }
    Ok(())
}

pub struct LinksWorld;

impl World for LinksWorld {
    fn name(&self) -> &'static str {
        "links"
    }

    fn generate(&self, seed: u64, _tier: Tier) -> Json {
        serde_json::to_value(Batch::<Seq>::seeded(seed, BATCH)).unwrap()
    }

    fn execute(&self, scenario: &Json, keep_log: bool) -> Outcome {
        execute_batch::<Seq>(scenario, keep_log, MAX_OPS, run_seq, |seq, msg| {
            Violation::new(PROP, "C20.links.panic", "", format!("the link registry panicked: {msg}; lanes={} remotes={} ops={}", seq.lanes, seq.remotes, seq.ops.join(" ")))
        })
    }

    fn shrink(&self, scenario: &Json) -> Vec<Json> {
        shrink_json::<Seq>(scenario)
    }

    fn rule(&self) -> String {
        format!(
            "one run = {BATCH} seeded op sequences (<= {MAX_OPS} ops of insert/remove/remove_remote/remove_lane/remove_all_links/register_reporter/\
             count_single/count_broadcast/count_commands/snapshot over 1..=4 lanes x 1..=4 remotes, per-sequence swarm weights, reporters registered up \
             front in 3 of 4 sequences and at drawn points otherwise, 7 of 8 with an aggregate reporter), each on a fresh real Links; after every op both \
             indexes are compared with the reference pair set and (dense sequences, 3 of 4) every live reader is snapshotted and compared with the reference \
             counts. Non-trivial = in some sequence a lane with a registered reporter lost its last remote (probe.last_remote_removed.<path>) or a lane was \
             removed whose remotes were linked to other lanes too (probe.remove_lane.shared_remote); distinct = distinct hash of the full history"
        )
    }

    fn components(&self) -> Json {
        json!({
            "real": [
                "swimos_runtime/src/agent/task/links.rs compiled from /repo by #[path] via the crate-root shim `agent` (Links::{new, insert, remove, remove_remote, remove_lane, remove_all_links, register_reporter, count_single, count_broadcast, linked_from, linked_to, is_linked}, TriggerUnlink)",
                "swimos_runtime::agent::reporting::{UplinkReporter, UplinkReportReader, UplinkSnapshot} (public API of the real crate)"
            ],
            "stub": [
                "the write task: replaced by a script of single registry calls; iterators of remove_lane / remove_all_links are always consumed completely (as the write task does)",
                "reference model: BTreeSet of (lane, remote) pairs plus expected event / command totals per reporter",
                "no concurrency: counting from several threads is not explored by this world"
            ]
        })
    }
}
