//! Boundary-heavy generators: typed values, model values, Recon texts (grammar + mutation),
//! chunkings. Everything is a pure function of the seed.

use std::collections::BTreeMap;

use crate::core::rng::Rng;

use super::model::{NestKind, IJ, NEST_KINDS, TV, VJ};

// ------------------------------------------------------------------------------------------------
// Primitives
// ------------------------------------------------------------------------------------------------

pub fn gen_i32(r: &mut Rng) -> i32 {
    match r.below(10) {
        0 => i32::MIN,
        1 => i32::MAX,
        2 => 0,
        3 => -1,
        4 => 1,
        5 => i32::MIN + 1,
        6 => r.range_i(-1000, 1000) as i32,
        _ => r.next_u64() as i32,
    }
}

pub fn gen_i64(r: &mut Rng) -> i64 {
    match r.below(14) {
        0 => i64::MIN,
        1 => i64::MAX,
        2 => 0,
        3 => -1,
        4 => i32::MIN as i64 - 1,
        5 => i32::MAX as i64 + 1,
        6 => u32::MAX as i64,
        7 => u32::MAX as i64 + 1,
        8 => i64::MIN + 1,
        9 => i32::MIN as i64,
        10 => r.range_i(-1000, 1000),
        _ => r.next_u64() as i64,
    }
}

pub fn gen_u32(r: &mut Rng) -> u32 {
    match r.below(8) {
        0 => 0,
        1 => u32::MAX,
        2 => i32::MAX as u32,
        3 => i32::MAX as u32 + 1,
        4 => 1,
        5 => r.below(1000) as u32,
        _ => r.next_u64() as u32,
    }
}

pub fn gen_u64(r: &mut Rng) -> u64 {
    match r.below(12) {
        0 => 0,
        1 => u64::MAX,
        2 => i64::MAX as u64,
        3 => i64::MAX as u64 + 1,
        4 => u32::MAX as u64,
        5 => u32::MAX as u64 + 1,
        6 => i32::MAX as u64 + 1,
        7 => 1,
        8 => r.below(1000),
        _ => r.next_u64(),
    }
}

/// Floats for *typed* values: finite (the statement restricts values of serialisable types to finite floats).
pub fn gen_f64_finite(r: &mut Rng) -> f64 {
    loop {
        let x = gen_f64(r);
        if x.is_finite() {
            return x;
        }
    }
}

/// Floats for model values and number texts: finite ones and the infinities (a model value is arbitrary, and the
/// parser itself produces an infinity from `1e400`); never NaN.
pub fn gen_f64(r: &mut Rng) -> f64 {
    let x = match r.below(30) {
        0 => 0.0,
        1 => -0.0,
        2 => f64::MIN_POSITIVE,
        3 => f64::from_bits(1),                      // smallest subnormal
        4 => f64::from_bits(0x000f_ffff_ffff_ffff),  // largest subnormal
        5 => f64::MAX,
        6 => f64::MIN,
        7 => f64::EPSILON,
        8 => 1e300,
        9 => 1e-300,
        10 => 1.0,
        11 => -1.0,
        12 => 1e15,
        13 => 1e16,
        14 => 1e17,
        15 => 123456789.0,
        16 => 9007199254740993.0,
        17 => 0.1,
        18 => 1.0 / 3.0,
        19 => -2.5e-7,
        20 => r.range_i(-100000, 100000) as f64,      // integers as floats
        21 => (r.next_u64() >> 11) as f64,            // large integers as floats
        22 => u64::MAX as f64,
        23 => i64::MIN as f64,
        24 => -f64::from_bits(1),
        25 => 1e21,
        26 => 1e-7,
        27 => {
            // The infinities (NaN is left out: it is not equal to itself, so "reads back equal" is undefined for it).
            if r.chance(1, 2) {
                f64::INFINITY
            } else {
                f64::NEG_INFINITY
            }
        }
        _ => f64::from_bits(r.next_u64()),
    };
    if x.is_nan() {
        1.5
    } else {
        x
    }
}

const POOL_ASCII: &[char] = &[
    'a', 'b', 'z', 'A', 'Z', '_', '-', '0', '9', ' ', '\t', '"', '\\', '\'', '@', '%', '#', '{', '}', '(', ')', ':', ',', ';', '.', '=', '+', '/', '!', '$', '\n', '\r', 'e', 'x', 'u', 'n',
];

const POOL_UNI: &[char] = &[
    '\u{0}', '\u{1}', '\u{8}', '\u{c}', '\u{1b}', '\u{1f}', '\u{7f}', '\u{80}', '\u{85}', '\u{a0}', '\u{b7}', '\u{c0}', '\u{d7}', '\u{e9}', '\u{f7}', '\u{37e}', '\u{301}', '\u{5d0}', '\u{627}', '\u{7ff}',
    '\u{800}', '\u{2028}', '\u{2029}', '\u{200c}', '\u{200b}', '\u{2135}', '\u{3000}', '\u{4e2d}', '\u{d7ff}', '\u{e000}', '\u{feff}', '\u{fffd}', '\u{fffe}', '\u{ffff}', '\u{10000}', '\u{1f600}',
    '\u{1d518}', '\u{effff}', '\u{f0000}', '\u{10ffff}',
];

const FIXED_STRINGS: &[&str] = &[
    "", "true", "false", "a", "name", "_x1", "a-b", "ℵ", "اسم", "2morrow", "two words", "say \"hi\"", "C:\\path\\new", "\\u0041", "\\", "\"", "\\\"", "e\u{301}", "😀", "𝔘𝔫𝔦", "@attr", "%AAAA", "%", "{}", "{",
    "}", "#c", "0x1f", "-1", "1e5", "1.5", "(", ")", ",", ";", ":", " ", "\n", "\r\n", "\t", "\u{0}", "\u{7f}", "True", "FALSE", "truex", "null", "-", "_", "·", "a b", " a", "a ", "é", "\u{10ffff}",
    "a\u{0}b", "tab\there", "line\nbreak", "\u{feff}bom", "\u{2028}", "@", "a:b", "a,b", "k", "t", "infinite",
];

fn pick_str<'a>(r: &mut Rng, items: &[&'a str]) -> &'a str {
    items[r.usize_below(items.len())]
}

pub fn gen_char(r: &mut Rng) -> char {
    match r.below(10) {
        0..=4 => *r.pick(POOL_ASCII),
        5..=7 => *r.pick(POOL_UNI),
        8 => char::from_u32(r.below(0x80) as u32).unwrap_or('a'),
        _ => {
            let c = r.below(0x110000) as u32;
            char::from_u32(c).unwrap_or('\u{fffd}')
        }
    }
}

pub fn gen_identifier(r: &mut Rng) -> String {
    const START: &[char] = &['a', 'b', 'x', 'Z', '_', 'é', 'ℵ', '\u{b7}', '中', '\u{10000}', 't', 'f', 'n'];
    const CONT: &[char] = &['a', 'e', '1', '0', '-', '_', 'é', '中', 'x', 'r', 'u'];
    let mut s = String::new();
    s.push(*r.pick(START));
    for _ in 0..r.below(8) {
        s.push(*r.pick(CONT));
    }
    s
}

pub fn gen_string(r: &mut Rng) -> String {
    match r.below(10) {
        0..=3 => r.pick(FIXED_STRINGS).to_string(),
        4 => gen_identifier(r),
        5 => {
            // Long.
            let unit = r.pick(FIXED_STRINGS).to_string();
            let n = r.range(2, 40) as usize;
            let mut s = String::new();
            for _ in 0..n {
                s.push_str(&unit);
                if s.len() > 400 {
                    break;
                }
            }
            s
        }
        _ => {
            let n = r.range(1, 12);
            (0..n).map(|_| gen_char(r)).collect()
        }
    }
}

fn gen_bytes(r: &mut Rng) -> Vec<u8> {
    match r.below(6) {
        0 => vec![],
        1 => vec![0],
        2 => vec![0xff; r.range(1, 5) as usize],
        3 => (0..=255u8).collect(),
        _ => {
            let n = r.range(1, 40) as usize;
            (0..n).map(|_| r.next_u64() as u8).collect()
        }
    }
}

fn gen_bigint(r: &mut Rng) -> String {
    match r.below(8) {
        0 => "18446744073709551616".into(),   // u64::MAX + 1
        1 => "-9223372036854775809".into(),   // i64::MIN - 1
        2 => "-18446744073709551616".into(),
        3 => "1000000000000000000000000000000".into(),
        4 => "-1000000000000000000000000000000".into(),
        5 => (r.range_i(-100, 100)).to_string(),
        6 => "-9223372036854775808".into(),
        _ => {
            let mut s = String::new();
            if r.chance(1, 2) {
                s.push('-');
            }
            s.push(char::from(b'1' + r.below(9) as u8));
            for _ in 0..r.range(18, 60) {
                s.push(char::from(b'0' + r.below(10) as u8));
            }
            s
        }
    }
}

fn gen_biguint(r: &mut Rng) -> String {
    let s = gen_bigint(r);
    s.trim_start_matches('-').to_string()
}

fn gen_vec<T>(r: &mut Rng, max: u64, mut f: impl FnMut(&mut Rng) -> T) -> Vec<T> {
    let n = match r.below(6) {
        0 => 0,
        1 => 1,
        _ => r.range(2, max),
    };
    (0..n).map(|_| f(r)).collect()
}

// ------------------------------------------------------------------------------------------------
// Typed values
// ------------------------------------------------------------------------------------------------

pub fn gen_typed(r: &mut Rng) -> TV {
    match r.below(55) {
        0 => TV::Unit,
        1 => TV::I32(gen_i32(r)),
        2 => TV::I64(gen_i64(r)),
        3 => TV::U32(gen_u32(r)),
        4 => TV::U64(gen_u64(r)),
        5 | 6 => TV::F64(gen_f64_finite(r).to_bits()),
        7 => TV::Bool(r.chance(1, 2)),
        8 | 9 | 10 => TV::Str(gen_string(r)),
        11 => TV::Text(gen_string(r)),
        12 => TV::Blob(gen_bytes(r)),
        13 => TV::BigInt(gen_bigint(r)),
        14 => TV::BigUint(gen_biguint(r)),
        15 => TV::VecI32(gen_vec(r, 8, gen_i32)),
        16 => TV::VecI64(gen_vec(r, 8, gen_i64)),
        17 => TV::VecU64(gen_vec(r, 8, gen_u64)),
        18 => TV::VecF64(gen_vec(r, 8, |r| gen_f64_finite(r).to_bits())),
        19 => TV::VecBool(gen_vec(r, 8, |r| r.chance(1, 2))),
        20 => TV::VecStr(gen_vec(r, 8, gen_string)),
        21 => TV::VecVecStr(gen_vec(r, 4, |r| gen_vec(r, 4, gen_string))),
        22 => TV::OptI32(if r.chance(1, 3) { None } else { Some(gen_i32(r)) }),
        23 => TV::OptStr(if r.chance(1, 3) { None } else { Some(gen_string(r)) }),
        24 => TV::OptVecStr(if r.chance(1, 3) { None } else { Some(gen_vec(r, 4, gen_string)) }),
        25 => {
            // (Recon has no token for an absent value: a record whose only item is absent is written `{}` and read
            // back as the empty record. `Vec<Option<i32>>` is a built-in serialisable type, so that is demanded too:
            // recorded as a finding, tag `lone_absent_item`.)
            let v = gen_vec(r, 6, |r| if r.chance(1, 3) { None } else { Some(gen_i32(r)) });
            TV::VecOptI32(v)
        }
        26 => {
            let mut m = BTreeMap::new();
            for _ in 0..r.below(6) {
                m.insert(gen_string(r), gen_i32(r));
            }
            TV::MapStrI32(m)
        }
        27 => {
            let mut m = BTreeMap::new();
            for _ in 0..r.below(6) {
                m.insert(gen_i32(r), gen_string(r));
            }
            TV::MapI32Str(m)
        }
        28 => TV::Plain { a: gen_i32(r), b: gen_string(r), c: if r.chance(1, 2) { None } else { Some(gen_i64(r)) } },
        29 => TV::Hdr { h: gen_i32(r), at: gen_string(r), x: gen_f64_finite(r).to_bits(), items: gen_vec(r, 4, gen_string) },
        30 => TV::HdrBody { n: gen_string(r), m: gen_u64(r), flag: r.chance(1, 2) },
        31 => TV::Wrap { n: gen_i32(r), inner: gen_vec(r, 4, gen_string) },
        32 => TV::Tup(gen_i32(r), gen_string(r)),
        33 => match r.below(4) {
            0 => TV::ShapeNil,
            1 => TV::ShapeCircle(gen_f64_finite(r).to_bits()),
            2 => TV::ShapePair(gen_string(r), gen_i64(r)),
            _ => TV::ShapeHolder {
                a: gen_i32(r),
                b: gen_string(r),
                c: if r.chance(1, 2) { None } else { Some(gen_i64(r)) },
                q: if r.chance(1, 2) { None } else { Some(gen_string(r)) },
            },
        },
        35 => TV::HdrVec { n: gen_i32(r), items: gen_vec(r, 4, gen_i32), flag: r.chance(1, 2) },
        36 => TV::VecHdrVec(gen_vec(r, 3, |r| (gen_i32(r), gen_vec(r, 3, gen_i32), r.chance(1, 2)))),
        34 => TV::VecPlain(gen_vec(r, 4, |r| (gen_i32(r), gen_string(r), if r.chance(1, 2) { None } else { Some(gen_i64(r)) }))),
        39 => TV::AttrStruct { a: gen_i32(r), b: gen_string(r), c: if r.chance(1, 2) { None } else { Some(gen_i64(r)) }, n: gen_i32(r) },
        40 => TV::AttrOne { z: gen_i32(r), n: gen_i32(r) },
        41 => {
            let mut m = BTreeMap::new();
            for _ in 0..r.below(4) {
                m.insert(gen_string(r), gen_i32(r));
            }
            TV::AttrMap { m, n: gen_i32(r) }
        }
        42 => TV::AttrOpt { o: if r.chance(1, 3) { None } else { Some(gen_i32(r)) }, n: gen_i32(r) },
        44 => TV::AttrTuple { a: gen_i32(r), b: gen_string(r), n: gen_i32(r) },
        45 => TV::BodyField { h: gen_i32(r), b: gen_vec(r, 4, gen_i32) },
        46 => TV::OptStruct { o: if r.chance(1, 3) { None } else { Some((gen_i32(r), gen_string(r), if r.chance(1, 2) { None } else { Some(gen_i64(r)) })) }, n: gen_i32(r) },
        47 => {
            let mut m = BTreeMap::new();
            for _ in 0..r.below(4) {
                m.insert(gen_string(r), gen_vec(r, 3, gen_i32));
            }
            TV::MapVec { m }
        }
        48 | 49 => {
            let mut m = BTreeMap::new();
            for _ in 0..r.below(3) {
                m.insert(gen_string(r), gen_i32(r));
            }
            TV::Ev2 { kind: r.below(4) as u8, n: gen_i32(r), v: gen_vec(r, 3, gen_i32), m, o: if r.chance(1, 3) { None } else { Some(gen_i32(r)) } }
        }
        50 => TV::HbStruct { a: gen_i32(r), b: gen_string(r), c: if r.chance(1, 2) { None } else { Some(gen_i64(r)) }, n: gen_i32(r) },
        51 => TV::HdrOpt { o: if r.chance(1, 3) { None } else { Some(gen_i32(r)) }, n: gen_i32(r) },
        52 => TV::Hdr2 { a: gen_i32(r), b: gen_vec(r, 3, gen_string), n: gen_i32(r) },
        53 => TV::VecOptPlain(gen_vec(r, 3, |r| if r.chance(1, 3) { None } else { Some((gen_i32(r), gen_string(r), if r.chance(1, 2) { None } else { Some(gen_i64(r)) })) })),
        43 => TV::HdrBodyVec { v: gen_vec(r, 4, gen_i32), n: gen_i32(r) },
        38 => TV::AttrRows { rows: gen_vec(r, 3, |r| gen_vec(r, 3, gen_i32)), n: gen_i32(r) },
        37 => TV::Timestamp(match r.below(4) {
            0 => r.below(3) * 1_000_000,
            1 => r.below(2_000_000),
            _ => 1_600_000_000_000_000 + r.below(400_000_000_000_000),
        }),
        _ => TV::Str(gen_string(r)),
    }
}

// ------------------------------------------------------------------------------------------------
// Model values
// ------------------------------------------------------------------------------------------------

pub fn gen_prim(r: &mut Rng) -> VJ {
    match r.below(16) {
        0 => VJ::X,
        1 => VJ::I32(gen_i32(r)),
        2 => VJ::I64(gen_i64(r)),
        3 => VJ::U32(gen_u32(r)),
        4 => VJ::U64(gen_u64(r)),
        5 | 6 => VJ::F(gen_f64(r).to_bits()),
        7 => VJ::B(r.chance(1, 2)),
        8 => VJ::BI(gen_bigint(r)),
        9 => VJ::BU(gen_biguint(r)),
        10 => VJ::D(gen_bytes(r)),
        _ => VJ::T(gen_string(r)),
    }
}

fn gen_attr_name(r: &mut Rng) -> String {
    if r.chance(2, 3) {
        gen_identifier(r)
    } else {
        // Names that are not identifiers must be quoted.
        gen_string(r)
    }
}

pub fn gen_value(r: &mut Rng, depth: u32) -> VJ {
    if depth == 0 || r.chance(2, 5) {
        return gen_prim(r);
    }
    match r.below(12) {
        // A record whose only item is itself a record.
        0 => VJ::R(vec![], vec![IJ::V(VJ::R(gen_attrs(r, depth - 1, 2), gen_items(r, depth - 1, 3)))]),
        // Empty record, in various positions.
        1 => VJ::R(vec![], vec![]),
        2 => VJ::R(vec![(gen_attr_name(r), VJ::R(vec![], vec![]))], vec![]),
        // Attribute whose value is a singleton record.
        3 => VJ::R(vec![(gen_attr_name(r), VJ::R(vec![], vec![IJ::V(gen_value(r, depth - 1))]))], gen_items(r, depth - 1, 2)),
        // Slots with records as keys.
        4 => VJ::R(gen_attrs(r, depth - 1, 1), vec![IJ::S(VJ::R(gen_attrs(r, depth - 1, 2), gen_items(r, depth - 1, 2)), gen_value(r, depth - 1))]),
        // Extant in various positions.
        5 => {
            let mut items = gen_items(r, depth - 1, 3);
            let pos = r.usize_below(items.len() + 1);
            let x = match r.below(4) {
                0 => IJ::V(VJ::X),
                1 => IJ::S(VJ::X, gen_prim(r)),
                2 => IJ::S(gen_prim(r), VJ::X),
                _ => IJ::S(VJ::X, VJ::X),
            };
            items.insert(pos, x);
            VJ::R(gen_attrs(r, depth - 1, 2), items)
        }
        // Attribute only.
        6 => VJ::R(gen_attrs(r, depth - 1, 3), vec![]),
        _ => VJ::R(gen_attrs(r, depth - 1, 3), gen_items(r, depth - 1, 5)),
    }
}

fn gen_attrs(r: &mut Rng, depth: u32, max: u64) -> Vec<(String, VJ)> {
    let n = r.below(max + 1);
    (0..n)
        .map(|_| {
            let v = match r.below(4) {
                0 => VJ::X,
                1 => gen_prim(r),
                _ => gen_value(r, depth),
            };
            (gen_attr_name(r), v)
        })
        .collect()
}

fn gen_items(r: &mut Rng, depth: u32, max: u64) -> Vec<IJ> {
    let n = r.below(max + 1);
    (0..n)
        .map(|_| {
            if r.chance(1, 2) {
                IJ::V(gen_value(r, depth))
            } else {
                let k = if r.chance(2, 3) { VJ::T(gen_string(r)) } else { gen_value(r, depth) };
                IJ::S(k, gen_value(r, depth))
            }
        })
        .collect()
}

pub fn gen_model(r: &mut Rng) -> VJ {
    let d = r.range(0, 4) as u32;
    let base = gen_value(r, d);
    match r.below(5) {
        0 => {
            // Deep nesting, up to depth 64 in total.
            let room = 64u64.saturating_sub(base.depth());
            let n = match r.below(4) {
                0 => room,
                1 => room.min(63),
                _ => r.range(1, room.max(1)),
            };
            let kind: NestKind = *r.pick(&NEST_KINDS);
            VJ::N(kind, n as u32, Box::new(base))
        }
        1 => {
            // Two stacked wrappers of different kinds.
            let k1: NestKind = *r.pick(&NEST_KINDS);
            let k2: NestKind = *r.pick(&NEST_KINDS);
            let n1 = r.range(1, 6) as u32;
            let n2 = r.range(1, 6) as u32;
            VJ::N(k1, n1, Box::new(VJ::N(k2, n2, Box::new(base))))
        }
        _ => base,
    }
}

// ------------------------------------------------------------------------------------------------
// Recon texts
// ------------------------------------------------------------------------------------------------

fn ws(r: &mut Rng, out: &mut String) {
    match r.below(12) {
        0 => out.push(' '),
        1 => out.push_str("  "),
        2 => out.push('\t'),
        _ => {}
    }
}

fn ws_nl(r: &mut Rng, out: &mut String) {
    match r.below(12) {
        0 => out.push(' '),
        1 => out.push('\n'),
        2 => out.push_str("\r\n"),
        3 => out.push_str(" \n  "),
        _ => {}
    }
}

fn text_string_literal(r: &mut Rng, out: &mut String) {
    out.push('"');
    for _ in 0..r.below(10) {
        match r.below(14) {
            0 => out.push_str("\\\""),
            1 => out.push_str("\\\\"),
            2 => out.push_str(pick_str(r, &["\\n", "\\r", "\\t", "\\b", "\\f"])),
            3 => {
                // Unicode escapes, including surrogates and repeated 'u'.
                let cp: u32 = match r.below(8) {
                    0 => 0xd800,
                    1 => 0xdfff,
                    2 => 0x0000,
                    3 => 0xffff,
                    4 => 0x0041,
                    5 => 0xdbff,
                    _ => r.below(0x10000) as u32,
                };
                out.push_str("\\u");
                if r.chance(1, 8) {
                    out.push('u');
                }
                out.push_str(&format!("{:04x}", cp));
            }
            4 => out.push_str(pick_str(r, &["\\u12", "\\x", "\\'", "\\/", "\\u{41}", "\\0"])), // invalid escapes
            5 => out.push(*r.pick(POOL_UNI)),
            6 => out.push(' '),
            7 => out.push('\n'),
            _ => {
                let c = *r.pick(POOL_ASCII);
                if c != '"' && c != '\\' {
                    out.push(c);
                }
            }
        }
    }
    out.push('"');
}

fn text_number(r: &mut Rng, out: &mut String) {
    match r.below(16) {
        0 => out.push_str(&gen_i64(r).to_string()),
        1 => out.push_str(&gen_u64(r).to_string()),
        2 => out.push_str(&gen_bigint(r)),
        3 => out.push_str(&format!("{}0x{:x}", if r.chance(1, 3) { "-" } else { "" }, gen_u64(r))),
        4 => out.push_str(&format!("{}0X{:X}", if r.chance(1, 3) { "-" } else { "" }, gen_u32(r))),
        5 => out.push_str(&format!("{}0b{:b}", if r.chance(1, 3) { "-" } else { "" }, r.below(1 << 20))),
        6 => out.push_str("0xffffffffffffffffffff"),
        7 => out.push_str(&format!("{:e}", gen_f64(r))),
        8 => out.push_str(&format!("{}", gen_f64(r))),
        9 => out.push_str(pick_str(r, &["1.", ".5", "1e", "1e+", "1e-5", "1E5", "-0", "-0.0", "00", "007", "1.5e300", "1e400", "-1e400", "0x", "0b2", "0b", "-", "--1", "+1", "1_000", "1.2.3", "1e5e5", "inf", "NaN", "-inf", "infinity"])),
        10 => out.push_str(&format!("{}.{}", r.below(1000), r.below(1000))),
        _ => out.push_str(&r.range_i(-1000, 1000).to_string()),
    }
}

fn text_blob(r: &mut Rng, out: &mut String) {
    const B64: &[u8] = b"ABCDEFGHIJKLMNOPQRSTUVWXYZabcdefghijklmnopqrstuvwxyz0123456789+/";
    out.push('%');
    let blocks = r.below(5);
    for _ in 0..blocks * 4 {
        out.push(char::from(B64[r.usize_below(64)]));
    }
    match r.below(6) {
        0 => {
            out.push(char::from(B64[r.usize_below(64)]));
            out.push(char::from(B64[r.usize_below(4) * 16]));
            out.push_str("==");
        }
        1 => {
            out.push(char::from(B64[r.usize_below(64)]));
            out.push(char::from(B64[r.usize_below(64)]));
            out.push(char::from(B64[r.usize_below(16) * 4]));
            out.push('=');
        }
        2 => out.push_str(pick_str(r, &["=", "A", "AB", "ABC", "A===", "AB=C", "AB==="])), // malformed tails
        _ => {}
    }
}

fn text_prim(r: &mut Rng, out: &mut String) {
    match r.below(12) {
        0 | 1 => out.push_str(&gen_identifier(r)),
        2 => out.push_str(pick_str(r, &["true", "false"])),
        3 | 4 => text_string_literal(r, out),
        5 | 6 | 7 => text_number(r, out),
        8 => text_blob(r, out),
        9 => out.push_str(pick_str(r, &["truex", "falsey", "t", "f", "tru", "_", "a-", "-a", "é", "中文", "\u{10000}x"])),
        _ => out.push_str(&gen_identifier(r)),
    }
}

fn text_attr(r: &mut Rng, out: &mut String, depth: u32) {
    out.push('@');
    match r.below(6) {
        0 => text_string_literal(r, out),
        1 => out.push_str(pick_str(r, &["true", "false", "a b", "", "1a"])),
        _ => out.push_str(&gen_identifier(r)),
    }
    if r.chance(1, 2) {
        out.push('(');
        text_items(r, out, depth, true);
        out.push(')');
    }
}

fn text_items(r: &mut Rng, out: &mut String, depth: u32, in_attr: bool) {
    let n = r.below(5);
    ws_nl(r, out);
    for i in 0..n {
        if i > 0 {
            match r.below(8) {
                0 => out.push(';'),
                1 => out.push('\n'),
                2 => out.push_str(",,"),
                3 if !in_attr => out.push_str("\r\n"),
                _ => out.push(','),
            }
            ws_nl(r, out);
        }
        match r.below(10) {
            0 => {} // empty item
            1 => {
                out.push(':');
                ws(r, out);
                text_value(r, out, depth);
            }
            2 => {
                text_value(r, out, depth);
                ws(r, out);
                out.push(':');
            }
            3..=5 => {
                text_value(r, out, depth);
                ws(r, out);
                out.push(':');
                ws(r, out);
                text_value(r, out, depth);
            }
            _ => text_value(r, out, depth),
        }
        ws(r, out);
    }
    ws_nl(r, out);
}

pub fn text_value(r: &mut Rng, out: &mut String, depth: u32) {
    if depth == 0 || r.chance(2, 5) {
        text_prim(r, out);
        return;
    }
    let attrs = r.below(3);
    for _ in 0..attrs {
        text_attr(r, out, depth - 1);
        ws(r, out);
    }
    match r.below(6) {
        0 if attrs > 0 => {}
        1 if attrs > 0 => {
            if !out.ends_with(' ') {
                out.push(' ');
            }
            text_prim(r, out);
        }
        _ => {
            out.push('{');
            text_items(r, out, depth - 1, false);
            out.push('}');
        }
    }
}

const MUT_TOKENS: &[&str] = &[
    "{", "}", "(", ")", "@", ":", ",", ";", "\"", "\\", "%", "#", "\n", "\r\n", " ", "-", "0x", "e", "=", "\\u", "\\ud800", "\u{0}", "é", "😀", ".", "true", "1", "a", "@a(", "{{", "}}", "\\\"", "# c\n", "%AA==",
];

pub fn mutate(r: &mut Rng, s: &str) -> String {
    let mut chars: Vec<char> = s.chars().collect();
    let ops = r.range(1, 3);
    for _ in 0..ops {
        let n = chars.len();
        match r.below(7) {
            0 if n > 0 => {
                // delete a range
                let a = r.usize_below(n);
                let len = (r.range(1, 4) as usize).min(n - a);
                chars.drain(a..a + len);
            }
            1 => {
                let a = r.usize_below(n + 1);
                let t: Vec<char> = r.pick(MUT_TOKENS).chars().collect();
                for (i, c) in t.into_iter().enumerate() {
                    chars.insert(a + i, c);
                }
            }
            2 if n > 0 => {
                // duplicate a range
                let a = r.usize_below(n);
                let len = (r.range(1, 8) as usize).min(n - a);
                let seg: Vec<char> = chars[a..a + len].to_vec();
                for (i, c) in seg.into_iter().enumerate() {
                    chars.insert(a + i, c);
                }
            }
            3 if n > 0 => {
                // truncate
                let a = r.usize_below(n);
                chars.truncate(a);
            }
            4 if n > 1 => {
                let a = r.usize_below(n);
                let b = r.usize_below(n);
                chars.swap(a, b);
            }
            5 if n > 0 => {
                let a = r.usize_below(n);
                chars[a] = gen_char(r);
            }
            _ => {
                let a = r.usize_below(n + 1);
                chars.insert(a, gen_char(r));
            }
        }
    }
    chars.into_iter().collect()
}

/// A Recon text: grammar generated (mostly valid), possibly mutated, possibly padded / large.
pub fn gen_text(r: &mut Rng) -> String {
    let mut out = String::new();
    match r.below(10) {
        0 => {
            // Large: a record with many items (a few KiB).
            out.push('{');
            let n = r.range(20, 150);
            for i in 0..n {
                if i > 0 {
                    out.push_str(pick_str(r, &[",", ", ", "\n", ";"]));
                }
                let mut item = String::new();
                text_value(r, &mut item, 2);
                out.push_str(&item);
                if out.len() > 3000 {
                    break;
                }
            }
            out.push('}');
        }
        1 => {
            // Leading / trailing white space around a value.
            out.push_str(pick_str(r, &[" ", "\n", "\t ", "  \n ", ""]));
            text_value(r, &mut out, 3);
            out.push_str(pick_str(r, &[" ", "\n", " \n", "   ", "\t", ""]));
        }
        2 => text_prim(r, &mut out),
        3 => {
            // Only attributes (ends are decided at EOF).
            for _ in 0..r.range(1, 3) {
                text_attr(r, &mut out, 2);
                ws(r, &mut out);
            }
        }
        4 => {
            // Deeply nested text.
            let n = r.range(1, 64);
            let kind = r.below(3);
            for _ in 0..n {
                out.push_str(match kind {
                    0 => "{",
                    1 => "@a(",
                    _ => "{k:",
                });
            }
            text_prim(r, &mut out);
            for _ in 0..n {
                out.push_str(match kind {
                    0 => "}",
                    1 => ")",
                    _ => "}",
                });
            }
        }
        _ => text_value(r, &mut out, 3),
    }
    if r.chance(2, 5) {
        out = mutate(r, &out);
    }
    // Bound the size (on a char boundary).
    if out.len() > 4096 {
        let mut cut = 4096;
        while !out.is_char_boundary(cut) {
            cut -= 1;
        }
        out.truncate(cut);
    }
    out
}

/// Raw bytes that need not be UTF-8.
pub fn gen_raw_bytes(r: &mut Rng) -> Vec<u8> {
    let mut t = String::new();
    text_value(r, &mut t, 2);
    let mut b = t.into_bytes();
    for _ in 0..r.range(1, 3) {
        let pos = r.usize_below(b.len() + 1);
        let bad: &[u8] = match r.below(6) {
            0 => &[0xff],
            1 => &[0xc0, 0x80],
            2 => &[0xed, 0xa0, 0x80], // encoded surrogate
            3 => &[0xe2, 0x82],       // truncated sequence
            4 => &[0x80],
            _ => &[0xf8, 0x88, 0x80, 0x80],
        };
        for (i, x) in bad.iter().enumerate() {
            b.insert(pos + i, *x);
        }
    }
    b
}

// ------------------------------------------------------------------------------------------------
// Chunkings
// ------------------------------------------------------------------------------------------------

/// Chunk sizes, applied cyclically until the data is exhausted.
pub fn gen_sizes(r: &mut Rng) -> Vec<usize> {
    match r.below(6) {
        0 => vec![1],
        1 => vec![2],
        2 => vec![1, 2, 3],
        3 => {
            let n = r.range(2, 12);
            (0..n).map(|_| r.range(1, 4) as usize).collect()
        }
        4 => {
            let n = r.range(2, 12);
            (0..n).map(|_| if r.chance(1, 3) { 1 } else { r.range(1, 40) as usize }).collect()
        }
        _ => {
            let n = r.range(1, 6);
            (0..n).map(|_| r.range(1, 400) as usize).collect()
        }
    }
}

pub fn gen_pend(r: &mut Rng) -> Vec<bool> {
    match r.below(4) {
        0 => vec![false],
        1 => vec![true],
        _ => {
            let n = r.range(2, 7);
            (0..n).map(|_| r.chance(1, 3)).collect()
        }
    }
}
