//! `SimPipe`: an `AsyncRead` the simulator owns. It serves a byte string in chunks given by an
//! explicit plan (down to one byte, i.e. also inside multi-byte UTF-8 characters), may return
//! `Pending` (waking the task immediately) between chunks, and ends with EOF. The drivers poll the
//! product's stream / future with a no-op waker under a poll bound (=> `C09.no_hang`).

use std::future::Future;
use std::panic::{catch_unwind, AssertUnwindSafe};
use std::pin::Pin;
use std::task::{Context, Poll};

use futures::Stream;
use tokio::io::{AsyncRead, ReadBuf};
use tokio_util::codec::{Decoder, FramedRead};

#[derive(Debug, Clone, Copy, PartialEq, Eq)]
pub enum Step {
    /// Serve (at most) this many bytes with one successful read.
    Chunk(usize),
    /// Return `Pending` once (the waker is invoked immediately).
    Pending,
}

#[derive(Debug, Default, Clone, Copy)]
pub struct PipeStats {
    pub reads: u64,
    pub pendings: u64,
    pub eofs: u64,
}

pub struct SimPipe {
    data: Vec<u8>,
    pos: usize,
    plan: Vec<Step>,
    idx: usize,
    pub stats: PipeStats,
}

impl SimPipe {
    /// The plan is completed so that all the data is served: whatever the plan does not cover is
    /// delivered as one final chunk.
    pub fn new(data: Vec<u8>, plan: Vec<Step>) -> SimPipe {
        SimPipe { data, pos: 0, plan, idx: 0, stats: PipeStats::default() }
    }
}

impl AsyncRead for SimPipe {
    fn poll_read(mut self: Pin<&mut Self>, cx: &mut Context<'_>, buf: &mut ReadBuf<'_>) -> Poll<std::io::Result<()>> {
        let this = &mut *self;
        loop {
            if this.pos >= this.data.len() {
                // A trailing `Pending` of the plan is still honoured before EOF.
                if this.idx < this.plan.len() {
                    let step = this.plan[this.idx];
                    this.idx += 1;
                    if step == Step::Pending {
                        this.stats.pendings += 1;
                        cx.waker().wake_by_ref();
                        return Poll::Pending;
                    }
                    continue;
                }
                this.stats.eofs += 1;
                return Poll::Ready(Ok(()));
            }
            let step = if this.idx < this.plan.len() { this.plan[this.idx] } else { Step::Chunk(usize::MAX) };
            match step {
                Step::Pending => {
                    this.idx += 1;
                    this.stats.pendings += 1;
                    cx.waker().wake_by_ref();
                    return Poll::Pending;
                }
                Step::Chunk(0) => {
                    this.idx += 1;
                }
                Step::Chunk(n) => {
                    let avail = this.data.len() - this.pos;
                    let k = n.min(avail).min(buf.remaining());
                    if k == 0 {
                        // The reader offered no space: nothing we can do but report "no progress" as a
                        // zero-length read would mean EOF; FramedRead always reserves space first.
                        return Poll::Ready(Ok(()));
                    }
                    buf.put_slice(&this.data[this.pos..this.pos + k]);
                    this.pos += k;
                    this.stats.reads += 1;
                    if k == n || n == usize::MAX {
                        if this.idx < this.plan.len() {
                            this.idx += 1;
                        }
                    } else if this.idx < this.plan.len() {
                        this.plan[this.idx] = Step::Chunk(n - k);
                    }
                    return Poll::Ready(Ok(()));
                }
            }
        }
    }
}

/// What the first frame of a stream was.
#[derive(Debug)]
pub enum First<T, E> {
    Item(T),
    Error(E),
    /// The stream ended without producing a frame.
    End,
    /// The poll bound was exceeded.
    Hang(u64),
    Panic(String),
}

pub fn panic_message(p: Box<dyn std::any::Any + Send>) -> String {
    if let Some(s) = p.downcast_ref::<&str>() {
        s.to_string()
    } else if let Some(s) = p.downcast_ref::<String>() {
        s.clone()
    } else {
        "panic".to_string()
    }
}

fn poll_bound(plan_len: usize) -> u64 {
    2 * plan_len as u64 + 32
}

/// Drives `FramedRead::new(pipe, decoder)` until it yields its first frame (the product reads one
/// value from one bounded body and then discards the rest of the body, so the first frame is the
/// result of the decode).
pub fn first_frame<D>(decoder: D, data: Vec<u8>, plan: Vec<Step>) -> (First<D::Item, D::Error>, PipeStats, u64)
where
    D: Decoder + Unpin,
{
    let bound = poll_bound(plan.len());
    let pipe = SimPipe::new(data, plan);
    // Default capacity (8 KiB), as the product would get from `FramedRead::new`; texts are smaller
    // than that, so a planned chunk is normally served by exactly one read.
    let mut framed = FramedRead::new(pipe, decoder);
    let waker = futures::task::noop_waker();
    let mut cx = Context::from_waker(&waker);
    let mut polls = 0u64;
    let r = catch_unwind(AssertUnwindSafe(|| loop {
        polls += 1;
        if polls > bound {
            break First::Hang(polls);
        }
        match Pin::new(&mut framed).poll_next(&mut cx) {
            Poll::Ready(Some(Ok(v))) => break First::Item(v),
            Poll::Ready(Some(Err(e))) => break First::Error(e),
            Poll::Ready(None) => break First::End,
            Poll::Pending => {}
        }
    }));
    let stats = framed.get_ref().stats;
    match r {
        Ok(f) => (f, stats, polls),
        Err(p) => (First::Panic(panic_message(p)), stats, polls),
    }
}

/// Drives a future that reads from a `SimPipe` to completion under the poll bound.
pub fn drive_future<T, F, Fut>(make: F, data: Vec<u8>, plan: Vec<Step>) -> (First<T, ()>, u64)
where
    F: FnOnce(SimPipe) -> Fut,
    Fut: Future<Output = T>,
{
    let bound = poll_bound(plan.len());
    let pipe = SimPipe::new(data, plan);
    let waker = futures::task::noop_waker();
    let mut cx = Context::from_waker(&waker);
    let mut polls = 0u64;
    let r = catch_unwind(AssertUnwindSafe(|| {
        let mut fut = Box::pin(make(pipe));
        loop {
            polls += 1;
            if polls > bound {
                break First::Hang(polls);
            }
            match fut.as_mut().poll(&mut cx) {
                Poll::Ready(v) => break First::Item(v),
                Poll::Pending => {}
            }
        }
    }));
    match r {
        Ok(f) => (f, polls),
        Err(p) => (First::Panic(panic_message(p)), polls),
    }
}
