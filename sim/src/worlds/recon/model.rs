//! JSON-serialisable descriptions of the inputs (typed values, model values) and their
//! conversion into the product's types. Floats are stored as their bit patterns so that the
//! scenario JSON is exact; deep nesting is stored as an n-fold wrapper so that the scenario JSON
//! stays shallow (serde_json's recursion limit).

use std::collections::{BTreeMap, HashMap};
use std::fmt::Debug;
use std::str::FromStr;

use serde::{Deserialize, Serialize};
use swimos_form::read::RecognizerReadable;
use swimos_form::write::StructuralWritable;
use swimos_form::Form;
use swimos_model::{Attr, BigInt, BigUint, Blob, Item, Text, Value};

// ------------------------------------------------------------------------------------------------
// Model values
// ------------------------------------------------------------------------------------------------

#[derive(Serialize, Deserialize, Clone, Copy, Debug, PartialEq, Eq)]
pub enum NestKind {
    /// `{ w }` — a record whose only item is the inner value.
    Item,
    /// `@a(w)` — the inner value is the value of an attribute.
    AttrBody,
    /// `{ k: w }`
    SlotVal,
    /// `{ w: 1 }` — the inner value is a slot key.
    SlotKey,
    /// `@t w` / `@t { w }` — an attribute followed by a single item.
    AttrItem,
}

pub const NEST_KINDS: [NestKind; 5] = [NestKind::Item, NestKind::AttrBody, NestKind::SlotVal, NestKind::SlotKey, NestKind::AttrItem];

#[derive(Serialize, Deserialize, Clone, Debug, PartialEq)]
pub enum VJ {
    X,
    I32(i32),
    I64(i64),
    U32(u32),
    U64(u64),
    /// `f64` bits.
    F(u64),
    B(bool),
    /// Decimal digits.
    BI(String),
    BU(String),
    T(String),
    D(Vec<u8>),
    /// Attributes (name, value) and items.
    R(Vec<(String, VJ)>, Vec<IJ>),
    /// n-fold wrapper around the inner value.
    N(NestKind, u32, Box<VJ>),
}

#[derive(Serialize, Deserialize, Clone, Debug, PartialEq)]
pub enum IJ {
    V(VJ),
    S(VJ, VJ),
}

impl VJ {
    pub fn build(&self) -> Value {
        match self {
            VJ::X => Value::Extant,
            VJ::I32(n) => Value::Int32Value(*n),
            VJ::I64(n) => Value::Int64Value(*n),
            VJ::U32(n) => Value::UInt32Value(*n),
            VJ::U64(n) => Value::UInt64Value(*n),
            VJ::F(b) => Value::Float64Value(f64::from_bits(*b)),
            VJ::B(p) => Value::BooleanValue(*p),
            VJ::BI(s) => Value::BigInt(BigInt::from_str(s).unwrap_or_default()),
            VJ::BU(s) => Value::BigUint(BigUint::from_str(s).unwrap_or_default()),
            VJ::T(s) => Value::Text(Text::new(s)),
            VJ::D(d) => Value::Data(Blob::from_vec(d.clone())),
            VJ::R(attrs, items) => Value::Record(
                attrs.iter().map(|(n, v)| Attr { name: Text::new(n), value: v.build() }).collect(),
                items
                    .iter()
                    .map(|i| match i {
                        IJ::V(v) => Item::ValueItem(v.build()),
                        IJ::S(k, v) => Item::Slot(k.build(), v.build()),
                    })
                    .collect(),
            ),
            VJ::N(kind, n, inner) => {
                let mut v = inner.build();
                for _ in 0..*n {
                    v = match kind {
                        NestKind::Item => Value::Record(vec![], vec![Item::ValueItem(v)]),
                        NestKind::AttrBody => Value::Record(vec![Attr { name: Text::new("a"), value: v }], vec![]),
                        NestKind::SlotVal => Value::Record(vec![], vec![Item::Slot(Value::text("k"), v)]),
                        NestKind::SlotKey => Value::Record(vec![], vec![Item::Slot(v, Value::Int32Value(1))]),
                        NestKind::AttrItem => Value::Record(vec![Attr { name: Text::new("t"), value: Value::Extant }], vec![Item::ValueItem(v)]),
                    };
                }
                v
            }
        }
    }

    /// Nesting depth of the built value.
    pub fn depth(&self) -> u64 {
        match self {
            VJ::R(attrs, items) => {
                let a = attrs.iter().map(|(_, v)| v.depth()).max().unwrap_or(0);
                let i = items
                    .iter()
                    .map(|i| match i {
                        IJ::V(v) => v.depth(),
                        IJ::S(k, v) => k.depth().max(v.depth()),
                    })
                    .max()
                    .unwrap_or(0);
                1 + a.max(i)
            }
            VJ::N(_, n, inner) => *n as u64 + inner.depth(),
            _ => 0,
        }
    }

    /// Smaller variants, simplest first.
    pub fn shrink(&self) -> Vec<VJ> {
        let mut out = vec![];
        match self {
            VJ::X => {}
            VJ::I32(n) => shrink_int(*n as i128, &mut |m| out.push(VJ::I32(m as i32))),
            VJ::I64(n) => {
                out.push(VJ::I32(0));
                shrink_int(*n as i128, &mut |m| out.push(VJ::I64(m as i64)))
            }
            VJ::U32(n) => shrink_int(*n as i128, &mut |m| out.push(VJ::U32(m as u32))),
            VJ::U64(n) => shrink_int(*n as i128, &mut |m| out.push(VJ::U64(m as u64))),
            VJ::F(b) => {
                for c in [0f64, 1.0, -1.0, 0.5, 1e16] {
                    if c.to_bits() != *b {
                        out.push(VJ::F(c.to_bits()));
                    }
                }
            }
            VJ::B(p) => {
                if *p {
                    out.push(VJ::B(false));
                }
            }
            VJ::BI(s) | VJ::BU(s) => {
                out.push(VJ::I32(0));
                if s.len() > 2 {
                    let h = &s[..s.len() / 2 + 1];
                    if h != "-" {
                        out.push(if matches!(self, VJ::BI(_)) { VJ::BI(h.to_string()) } else { VJ::BU(h.to_string()) });
                    }
                }
            }
            VJ::T(s) => {
                for t in shrink_string(s) {
                    out.push(VJ::T(t));
                }
            }
            VJ::D(d) => {
                if !d.is_empty() {
                    out.push(VJ::D(vec![]));
                    out.push(VJ::D(d[..d.len() / 2].to_vec()));
                    out.push(VJ::D(d[..d.len() - 1].to_vec()));
                    if d.iter().any(|b| *b != 0) {
                        out.push(VJ::D(vec![0; d.len()]));
                    }
                }
            }
            VJ::R(attrs, items) => {
                out.push(VJ::X);
                // Hoist children.
                for (_, v) in attrs {
                    out.push(v.clone());
                }
                for i in items {
                    match i {
                        IJ::V(v) => out.push(v.clone()),
                        IJ::S(k, v) => {
                            out.push(k.clone());
                            out.push(v.clone());
                        }
                    }
                }
                // Drop one attribute / item.
                for idx in 0..attrs.len() {
                    let mut a = attrs.clone();
                    a.remove(idx);
                    out.push(VJ::R(a, items.clone()));
                }
                for idx in 0..items.len() {
                    let mut it = items.clone();
                    it.remove(idx);
                    out.push(VJ::R(attrs.clone(), it));
                }
                // Slots to value items.
                for idx in 0..items.len() {
                    if let IJ::S(k, v) = &items[idx] {
                        let mut it = items.clone();
                        it[idx] = IJ::V(v.clone());
                        out.push(VJ::R(attrs.clone(), it));
                        let mut it = items.clone();
                        it[idx] = IJ::V(k.clone());
                        out.push(VJ::R(attrs.clone(), it));
                    }
                }
                // Shrink attribute names.
                for idx in 0..attrs.len() {
                    for n in shrink_string(&attrs[idx].0) {
                        let mut a = attrs.clone();
                        a[idx].0 = n;
                        out.push(VJ::R(a, items.clone()));
                    }
                }
                // Shrink children in place.
                for idx in 0..attrs.len() {
                    for s in attrs[idx].1.shrink() {
                        let mut a = attrs.clone();
                        a[idx].1 = s;
                        out.push(VJ::R(a, items.clone()));
                    }
                }
                for idx in 0..items.len() {
                    match &items[idx] {
                        IJ::V(v) => {
                            for s in v.shrink() {
                                let mut it = items.clone();
                                it[idx] = IJ::V(s);
                                out.push(VJ::R(attrs.clone(), it));
                            }
                        }
                        IJ::S(k, v) => {
                            for s in k.shrink() {
                                let mut it = items.clone();
                                it[idx] = IJ::S(s, v.clone());
                                out.push(VJ::R(attrs.clone(), it));
                            }
                            for s in v.shrink() {
                                let mut it = items.clone();
                                it[idx] = IJ::S(k.clone(), s);
                                out.push(VJ::R(attrs.clone(), it));
                            }
                        }
                    }
                }
            }
            VJ::N(kind, n, inner) => {
                out.push((**inner).clone());
                if *n > 1 {
                    out.push(VJ::N(*kind, 1, inner.clone()));
                    out.push(VJ::N(*kind, n / 2, inner.clone()));
                    out.push(VJ::N(*kind, n - 1, inner.clone()));
                }
                if *n == 1 {
                    // Make the wrapper explicit so that it can be shrunk structurally.
                    let w = match kind {
                        NestKind::Item => VJ::R(vec![], vec![IJ::V((**inner).clone())]),
                        NestKind::AttrBody => VJ::R(vec![("a".into(), (**inner).clone())], vec![]),
                        NestKind::SlotVal => VJ::R(vec![], vec![IJ::S(VJ::T("k".into()), (**inner).clone())]),
                        NestKind::SlotKey => VJ::R(vec![], vec![IJ::S((**inner).clone(), VJ::I32(1))]),
                        NestKind::AttrItem => VJ::R(vec![("t".into(), VJ::X)], vec![IJ::V((**inner).clone())]),
                    };
                    out.push(w);
                }
                for s in inner.shrink() {
                    out.push(VJ::N(*kind, *n, Box::new(s)));
                }
            }
        }
        out.retain(|c| c != self);
        out
    }
}

fn shrink_int(n: i128, push: &mut dyn FnMut(i128)) {
    if n != 0 {
        push(0);
        if n != 1 {
            push(1);
        }
        if n < 0 && n != -1 {
            push(-1);
        }
        if n / 2 != 0 && n / 2 != 1 {
            push(n / 2);
        }
        if n / 10 != 0 && n / 10 != n / 2 {
            push(n / 10);
        }
    }
}

/// Shorter / simpler strings (on `char` boundaries).
pub fn shrink_string(s: &str) -> Vec<String> {
    let chars: Vec<char> = s.chars().collect();
    let n = chars.len();
    let mut out: Vec<String> = vec![];
    if n == 0 {
        return out;
    }
    out.push(String::new());
    if n > 1 {
        out.push(chars[..n / 2].iter().collect());
        out.push(chars[n / 2..].iter().collect());
    }
    // Remove blocks of decreasing size.
    let mut size = n / 4;
    while size >= 1 {
        let mut start = 0;
        let mut count = 0;
        while start + size <= n && count < 24 {
            let mut c = chars.clone();
            c.drain(start..start + size);
            out.push(c.into_iter().collect());
            start += size;
            count += 1;
        }
        if size == 1 {
            break;
        }
        size /= 2;
    }
    // Simplify single characters.
    if n <= 24 {
        for i in 0..n {
            if chars[i] != 'a' {
                let mut c = chars.clone();
                c[i] = 'a';
                out.push(c.into_iter().collect());
            }
        }
    }
    let mut seen = std::collections::BTreeSet::new();
    out.retain(|c| c != s && seen.insert(c.clone()));
    out
}

// ------------------------------------------------------------------------------------------------
// Derived types
// ------------------------------------------------------------------------------------------------

#[derive(Form, Debug, Clone, PartialEq)]
pub struct Plain {
    pub a: i32,
    pub b: String,
    pub c: Option<i64>,
}

#[derive(Form, Debug, Clone, PartialEq)]
#[form(tag = "hdr")]
pub struct Hdr {
    #[form(header)]
    pub h: i32,
    #[form(attr)]
    pub at: String,
    #[form(name = "renamed")]
    pub x: f64,
    pub items: Vec<String>,
}

#[derive(Form, Debug, Clone, PartialEq)]
pub struct HdrBody {
    #[form(header_body)]
    pub n: String,
    #[form(header)]
    pub m: u64,
    pub flag: bool,
}

/// A header body next to a *stateful* header field (a vector): the recognizer of the last header slot has state that
/// must be reset when the recognizer of the struct is used again.
#[derive(Form, Debug, Clone, PartialEq)]
pub struct HdrVec {
    #[form(header_body)]
    pub n: i32,
    #[form(header)]
    pub items: Vec<i32>,
    pub flag: bool,
}

/// A vector of vectors in an attribute: the printers write an empty one as `@rows({})`, the same text as a vector
/// holding one empty vector.
#[derive(Form, Debug, Clone, PartialEq)]
pub struct AttrRows {
    #[form(attr)]
    pub rows: Vec<Vec<i32>>,
    pub n: i32,
}

/// More shapes of attribute and header fields (added after `AttrRows` had shown that these positions were thin):
/// a struct, a map, an optional value in an attribute, a vector as the header body.
#[derive(Form, Debug, Clone, PartialEq)]
pub struct InnerZ {
    pub z: i32,
}

#[derive(Form, Debug, Clone, PartialEq)]
pub struct AttrStruct {
    #[form(attr)]
    pub a: Plain,
    pub b: i32,
}

#[derive(Form, Debug, Clone, PartialEq)]
pub struct AttrOne {
    #[form(attr)]
    pub a: InnerZ,
    pub b: i32,
}

#[derive(Form, Debug, Clone, PartialEq)]
pub struct AttrMap {
    #[form(attr)]
    pub m: HashMap<String, i32>,
    pub n: i32,
}

#[derive(Form, Debug, Clone, PartialEq)]
pub struct AttrOpt {
    #[form(attr)]
    pub o: Option<i32>,
    pub n: i32,
}

#[derive(Form, Debug, Clone, PartialEq)]
pub struct AttrTuple {
    #[form(attr)]
    pub t: (i32, String),
    pub n: i32,
}

#[derive(Form, Debug, Clone, PartialEq)]
pub struct BodyField {
    #[form(header)]
    pub h: i32,
    #[form(body)]
    pub b: Vec<i32>,
}

#[derive(Form, Debug, Clone, PartialEq)]
pub struct OptStruct {
    pub o: Option<Plain>,
    pub n: i32,
}

#[derive(Form, Debug, Clone, PartialEq)]
pub struct MapVec {
    pub m: HashMap<String, Vec<i32>>,
}

#[derive(Form, Debug, Clone, PartialEq)]
pub struct HbStruct {
    #[form(header_body)]
    pub p: Plain,
    pub n: i32,
}

#[derive(Form, Debug, Clone, PartialEq)]
pub struct HdrOpt {
    #[form(header)]
    pub o: Option<i32>,
    pub n: i32,
}

#[derive(Form, Debug, Clone, PartialEq)]
pub struct Hdr2 {
    #[form(header)]
    pub a: i32,
    #[form(header)]
    pub b: Vec<String>,
    pub n: i32,
}

/// An enumeration whose variants use the attribute and header positions.
#[derive(Form, Debug, Clone, PartialEq)]
pub enum Ev2 {
    A {
        #[form(header)]
        h: i32,
        v: Vec<i32>,
    },
    B {
        #[form(attr)]
        v: Vec<i32>,
        n: i32,
    },
    #[form(tag = "cee")]
    C {
        #[form(header_body)]
        n: i32,
        #[form(attr)]
        m: HashMap<String, i32>,
    },
    D(Option<i32>),
}

#[derive(Form, Debug, Clone, PartialEq)]
pub struct HdrBodyVec {
    #[form(header_body)]
    pub v: Vec<i32>,
    pub n: i32,
}

#[derive(Form, Debug, Clone, PartialEq)]
pub struct Wrap {
    #[form(header)]
    pub n: i32,
    #[form(body)]
    pub inner: Vec<String>,
}

#[derive(Form, Debug, Clone, PartialEq)]
pub struct Tup(pub i32, pub String);

#[derive(Form, Debug, Clone, PartialEq)]
pub enum Shape {
    Nil,
    #[form(tag = "circle")]
    Circle {
        r: f64,
    },
    Pair(String, i64),
    Holder {
        p: Plain,
        q: Option<String>,
    },
}

// ------------------------------------------------------------------------------------------------
// Typed values
// ------------------------------------------------------------------------------------------------

#[derive(Serialize, Deserialize, Clone, Debug, PartialEq)]
pub enum TV {
    Unit,
    I32(i32),
    I64(i64),
    U32(u32),
    U64(u64),
    /// bits
    F64(u64),
    Bool(bool),
    Str(String),
    Text(String),
    Blob(Vec<u8>),
    BigInt(String),
    BigUint(String),
    VecI32(Vec<i32>),
    VecI64(Vec<i64>),
    VecU64(Vec<u64>),
    VecF64(Vec<u64>),
    VecBool(Vec<bool>),
    VecStr(Vec<String>),
    VecVecStr(Vec<Vec<String>>),
    OptI32(Option<i32>),
    OptStr(Option<String>),
    OptVecStr(Option<Vec<String>>),
    VecOptI32(Vec<Option<i32>>),
    MapStrI32(BTreeMap<String, i32>),
    MapI32Str(BTreeMap<i32, String>),
    Plain { a: i32, b: String, c: Option<i64> },
    Hdr { h: i32, at: String, x: u64, items: Vec<String> },
    HdrBody { n: String, m: u64, flag: bool },
    Wrap { n: i32, inner: Vec<String> },
    Tup(i32, String),
    ShapeNil,
    ShapeCircle(u64),
    ShapePair(String, i64),
    ShapeHolder { a: i32, b: String, c: Option<i64>, q: Option<String> },
    VecPlain(Vec<(i32, String, Option<i64>)>),
    HdrVec { n: i32, items: Vec<i32>, flag: bool },
    VecHdrVec(Vec<(i32, Vec<i32>, bool)>),
    AttrRows { rows: Vec<Vec<i32>>, n: i32 },
    AttrStruct { a: i32, b: String, c: Option<i64>, n: i32 },
    AttrOne { z: i32, n: i32 },
    AttrMap { m: BTreeMap<String, i32>, n: i32 },
    AttrOpt { o: Option<i32>, n: i32 },
    HdrBodyVec { v: Vec<i32>, n: i32 },
    AttrTuple { a: i32, b: String, n: i32 },
    BodyField { h: i32, b: Vec<i32> },
    OptStruct { o: Option<(i32, String, Option<i64>)>, n: i32 },
    MapVec { m: BTreeMap<String, Vec<i32>> },
    HbStruct { a: i32, b: String, c: Option<i64>, n: i32 },
    HdrOpt { o: Option<i32>, n: i32 },
    Hdr2 { a: i32, b: Vec<String>, n: i32 },
    VecOptPlain(Vec<Option<(i32, String, Option<i64>)>>),
    /// `Ev2`: `kind` 0..=3 selects the variant; unused fields are ignored.
    Ev2 { kind: u8, n: i32, v: Vec<i32>, m: BTreeMap<String, i32>, o: Option<i32> },
    /// `swimos_model::Timestamp`, microseconds since the epoch (not negative).
    Timestamp(u64),
}

pub fn timestamp_of(micros: u64) -> swimos_model::Timestamp {
    use chrono::TimeZone;
    let m = micros.min(4_000_000_000_000_000);
    let dt = chrono::Utc.timestamp_opt((m / 1_000_000) as i64, ((m % 1_000_000) * 1000) as u32).single().expect("valid time");
    swimos_model::Timestamp::from(dt)
}

fn eq_std<T: PartialEq>(a: &T, b: &T) -> bool {
    a == b
}

fn eq_f64(a: &f64, b: &f64) -> bool {
    // "Recovered exactly": the bit pattern (this distinguishes -0.0 from 0.0; NaN is never generated).
    a.to_bits() == b.to_bits()
}

fn eq_vec_f64(a: &Vec<f64>, b: &Vec<f64>) -> bool {
    a.len() == b.len() && a.iter().zip(b.iter()).all(|(x, y)| x.to_bits() == y.to_bits())
}

/// Callback receiving the concrete typed value.
pub trait TypedVisitor {
    /// Called before `visit`: the value contains an infinite float (classification of a recorded finding).
    fn note_infinite_float(&mut self, _present: bool) {}

    /// Called before `visit`: the value is a collection whose only item is an absent value (classification of a
    /// recorded finding: Recon has no token for an absent value, the record is printed `{}`).
    fn note_lone_absent_item(&mut self, _present: bool) {}

    /// Called before `visit`: the value holds an empty vector of vectors in an attribute (classification of a recorded
    /// finding: it is printed `@rows({})`, which is read as one empty row).
    fn note_empty_attr_vec(&mut self, _present: bool) {}

    /// Called before `visit`: the value has an attribute whose body is a struct with exactly one field (classification of
    /// a recorded finding: the printers omit the braces around a single slot in an attribute body).
    fn note_attr_single_slot(&mut self, _present: bool) {}

    fn visit<T>(&mut self, type_name: &'static str, value: T, eq: fn(&T, &T) -> bool)
    where
        T: StructuralWritable + RecognizerReadable + Debug + Clone + Unpin,
        T::Rec: Unpin;
}

impl TV {
    pub fn type_name(&self) -> &'static str {
        match self {
            TV::Unit => "unit",
            TV::I32(_) => "i32",
            TV::I64(_) => "i64",
            TV::U32(_) => "u32",
            TV::U64(_) => "u64",
            TV::Timestamp(_) => "timestamp",
            TV::F64(_) => "f64",
            TV::Bool(_) => "bool",
            TV::Str(_) => "string",
            TV::Text(_) => "text",
            TV::Blob(_) => "blob",
            TV::BigInt(_) => "bigint",
            TV::BigUint(_) => "biguint",
            TV::VecI32(_) => "vec_i32",
            TV::VecI64(_) => "vec_i64",
            TV::VecU64(_) => "vec_u64",
            TV::VecF64(_) => "vec_f64",
            TV::VecBool(_) => "vec_bool",
            TV::VecStr(_) => "vec_string",
            TV::VecVecStr(_) => "vec_vec_string",
            TV::OptI32(_) => "opt_i32",
            TV::OptStr(_) => "opt_string",
            TV::OptVecStr(_) => "opt_vec_string",
            TV::VecOptI32(_) => "vec_opt_i32",
            TV::MapStrI32(_) => "map_string_i32",
            TV::MapI32Str(_) => "map_i32_string",
            TV::Plain { .. } => "struct_plain",
            TV::Hdr { .. } => "struct_hdr",
            TV::HdrBody { .. } => "struct_hdr_body",
            TV::Wrap { .. } => "struct_wrap",
            TV::Tup(..) => "struct_tuple",
            TV::ShapeNil | TV::ShapeCircle(_) | TV::ShapePair(..) | TV::ShapeHolder { .. } => "enum_shape",
            TV::VecPlain(_) => "vec_struct_plain",
            TV::HdrVec { .. } => "struct_hdr_vec",
            TV::VecHdrVec(_) => "vec_struct_hdr_vec",
            TV::AttrRows { .. } => "struct_attr_rows",
            TV::AttrStruct { .. } => "struct_attr_struct",
            TV::AttrOne { .. } => "struct_attr_one_field_struct",
            TV::AttrMap { .. } => "struct_attr_map",
            TV::AttrOpt { .. } => "struct_attr_opt",
            TV::HdrBodyVec { .. } => "struct_hdr_body_vec",
            TV::AttrTuple { .. } => "struct_attr_tuple",
            TV::BodyField { .. } => "struct_body_field",
            TV::OptStruct { .. } => "struct_opt_struct",
            TV::MapVec { .. } => "struct_map_vec",
            TV::Ev2 { .. } => "enum_ev2",
            TV::HbStruct { .. } => "struct_header_body_struct",
            TV::HdrOpt { .. } => "struct_header_opt",
            TV::Hdr2 { .. } => "struct_two_headers",
            TV::VecOptPlain(_) => "vec_opt_struct_plain",
        }
    }

    pub fn dispatch<V: TypedVisitor>(&self, vis: &mut V) {
        let name = self.type_name();
        let infinite = match self {
            TV::F64(b) => f64::from_bits(*b).is_infinite(),
            TV::VecF64(v) => v.iter().any(|b| f64::from_bits(*b).is_infinite()),
            TV::Hdr { x, .. } => f64::from_bits(*x).is_infinite(),
            TV::ShapeCircle(r) => f64::from_bits(*r).is_infinite(),
            _ => false,
        };
        vis.note_infinite_float(infinite);
        vis.note_lone_absent_item(matches!(self, TV::VecOptI32(v) if v.len() == 1 && v[0].is_none()) || matches!(self, TV::VecOptPlain(v) if v.len() == 1 && v[0].is_none()));
        vis.note_attr_single_slot(matches!(self, TV::AttrOne { .. }));
        vis.note_empty_attr_vec(
            matches!(self, TV::AttrRows { rows, .. } if rows.is_empty())
                || matches!(self, TV::AttrMap { m, .. } if m.is_empty())
                || matches!(self, TV::Ev2 { kind, m, .. } if kind % 4 == 2 && m.is_empty()),
        );
        match self {
            TV::Unit => vis.visit(name, (), eq_std),
            TV::I32(n) => vis.visit(name, *n, eq_std),
            TV::I64(n) => vis.visit(name, *n, eq_std),
            TV::U32(n) => vis.visit(name, *n, eq_std),
            TV::U64(n) => vis.visit(name, *n, eq_std),
            TV::Timestamp(m) => vis.visit(name, timestamp_of(*m), eq_std),
            TV::F64(b) => vis.visit(name, f64::from_bits(*b), eq_f64),
            TV::Bool(p) => vis.visit(name, *p, eq_std),
            TV::Str(s) => vis.visit(name, s.clone(), eq_std),
            TV::Text(s) => vis.visit(name, Text::new(s), eq_std),
            TV::Blob(d) => vis.visit(name, Blob::from_vec(d.clone()), eq_std),
            TV::BigInt(s) => vis.visit(name, BigInt::from_str(s).unwrap_or_default(), eq_std),
            TV::BigUint(s) => vis.visit(name, BigUint::from_str(s).unwrap_or_default(), eq_std),
            TV::VecI32(v) => vis.visit(name, v.clone(), eq_std),
            TV::VecI64(v) => vis.visit(name, v.clone(), eq_std),
            TV::VecU64(v) => vis.visit(name, v.clone(), eq_std),
            TV::VecF64(v) => vis.visit(name, v.iter().map(|b| f64::from_bits(*b)).collect::<Vec<f64>>(), eq_vec_f64),
            TV::VecBool(v) => vis.visit(name, v.clone(), eq_std),
            TV::VecStr(v) => vis.visit(name, v.clone(), eq_std),
            TV::VecVecStr(v) => vis.visit(name, v.clone(), eq_std),
            TV::OptI32(v) => vis.visit(name, *v, eq_std),
            TV::OptStr(v) => vis.visit(name, v.clone(), eq_std),
            TV::OptVecStr(v) => vis.visit(name, v.clone(), eq_std),
            TV::VecOptI32(v) => vis.visit(name, v.clone(), eq_std),
            TV::MapStrI32(m) => vis.visit(name, m.iter().map(|(k, v)| (k.clone(), *v)).collect::<HashMap<String, i32>>(), eq_std),
            TV::MapI32Str(m) => vis.visit(name, m.iter().map(|(k, v)| (*k, v.clone())).collect::<HashMap<i32, String>>(), eq_std),
            TV::Plain { a, b, c } => vis.visit(name, Plain { a: *a, b: b.clone(), c: *c }, eq_std),
            TV::Hdr { h, at, x, items } => vis.visit(name, Hdr { h: *h, at: at.clone(), x: f64::from_bits(*x), items: items.clone() }, eq_std),
            TV::HdrBody { n, m, flag } => vis.visit(name, HdrBody { n: n.clone(), m: *m, flag: *flag }, eq_std),
            TV::Wrap { n, inner } => vis.visit(name, Wrap { n: *n, inner: inner.clone() }, eq_std),
            TV::Tup(a, b) => vis.visit(name, Tup(*a, b.clone()), eq_std),
            TV::ShapeNil => vis.visit(name, Shape::Nil, eq_std),
            TV::ShapeCircle(r) => vis.visit(name, Shape::Circle { r: f64::from_bits(*r) }, eq_std),
            TV::ShapePair(s, n) => vis.visit(name, Shape::Pair(s.clone(), *n), eq_std),
            TV::ShapeHolder { a, b, c, q } => vis.visit(name, Shape::Holder { p: Plain { a: *a, b: b.clone(), c: *c }, q: q.clone() }, eq_std),
            TV::VecPlain(v) => vis.visit(name, v.iter().map(|(a, b, c)| Plain { a: *a, b: b.clone(), c: *c }).collect::<Vec<Plain>>(), eq_std),
            TV::HdrVec { n, items, flag } => vis.visit(name, HdrVec { n: *n, items: items.clone(), flag: *flag }, eq_std),
            TV::VecHdrVec(v) => vis.visit(name, v.iter().map(|(n, items, flag)| HdrVec { n: *n, items: items.clone(), flag: *flag }).collect::<Vec<HdrVec>>(), eq_std),
            TV::AttrRows { rows, n } => vis.visit(name, AttrRows { rows: rows.clone(), n: *n }, eq_std),
            TV::AttrStruct { a, b, c, n } => vis.visit(name, AttrStruct { a: Plain { a: *a, b: b.clone(), c: *c }, b: *n }, eq_std),
            TV::AttrOne { z, n } => vis.visit(name, AttrOne { a: InnerZ { z: *z }, b: *n }, eq_std),
            TV::AttrMap { m, n } => vis.visit(name, AttrMap { m: m.iter().map(|(k, v)| (k.clone(), *v)).collect(), n: *n }, eq_std),
            TV::AttrOpt { o, n } => vis.visit(name, AttrOpt { o: *o, n: *n }, eq_std),
            TV::HdrBodyVec { v, n } => vis.visit(name, HdrBodyVec { v: v.clone(), n: *n }, eq_std),
            TV::AttrTuple { a, b, n } => vis.visit(name, AttrTuple { t: (*a, b.clone()), n: *n }, eq_std),
            TV::BodyField { h, b } => vis.visit(name, BodyField { h: *h, b: b.clone() }, eq_std),
            TV::OptStruct { o, n } => vis.visit(name, OptStruct { o: o.as_ref().map(|(a, b, c)| Plain { a: *a, b: b.clone(), c: *c }), n: *n }, eq_std),
            TV::Ev2 { kind, n, v, m, o } => {
                let e = match kind % 4 {
                    0 => Ev2::A { h: *n, v: v.clone() },
                    1 => Ev2::B { v: v.clone(), n: *n },
                    2 => Ev2::C { n: *n, m: m.iter().map(|(k, x)| (k.clone(), *x)).collect() },
                    _ => Ev2::D(*o),
                };
                vis.visit(name, e, eq_std)
            }
            TV::HbStruct { a, b, c, n } => vis.visit(name, HbStruct { p: Plain { a: *a, b: b.clone(), c: *c }, n: *n }, eq_std),
            TV::HdrOpt { o, n } => vis.visit(name, HdrOpt { o: *o, n: *n }, eq_std),
            TV::Hdr2 { a, b, n } => vis.visit(name, Hdr2 { a: *a, b: b.clone(), n: *n }, eq_std),
            TV::VecOptPlain(v) => vis.visit(name, v.iter().map(|o| o.as_ref().map(|(a, b, c)| Plain { a: *a, b: b.clone(), c: *c })).collect::<Vec<Option<Plain>>>(), eq_std),
            TV::MapVec { m } => vis.visit(name, MapVec { m: m.iter().map(|(k, v)| (k.clone(), v.clone())).collect() }, eq_std),
        }
    }

    /// Smaller variants of the same type, simplest first.
    pub fn shrink(&self) -> Vec<TV> {
        let mut out: Vec<TV> = vec![];
        fn ints<T: Copy + Into<i128>>(n: T, mk: &dyn Fn(i128) -> TV, out: &mut Vec<TV>) {
            shrink_int(n.into(), &mut |m| out.push(mk(m)));
        }
        fn vecs<T: Clone>(v: &[T]) -> Vec<Vec<T>> {
            let mut o = vec![];
            if v.is_empty() {
                return o;
            }
            o.push(vec![]);
            if v.len() > 1 {
                o.push(v[..v.len() / 2].to_vec());
                o.push(v[v.len() / 2..].to_vec());
                for i in 0..v.len().min(16) {
                    let mut c = v.to_vec();
                    c.remove(i);
                    o.push(c);
                }
            }
            o
        }
        fn strs_in(v: &[String]) -> Vec<Vec<String>> {
            let mut o = vecs(v);
            for i in 0..v.len().min(8) {
                for s in shrink_string(&v[i]) {
                    let mut c = v.to_vec();
                    c[i] = s;
                    o.push(c);
                }
            }
            o
        }
        match self {
            TV::Unit | TV::ShapeNil => {}
            TV::I32(n) => ints(*n, &|m| TV::I32(m as i32), &mut out),
            TV::I64(n) => ints(*n, &|m| TV::I64(m as i64), &mut out),
            TV::U32(n) => ints(*n, &|m| TV::U32(m as u32), &mut out),
            TV::U64(n) => ints(*n, &|m| TV::U64(m as u64), &mut out),
            TV::Timestamp(n) => {
                for c in [0u64, 1, 1_000, 999_999, 1_000_000, 1_500_000] {
                    if c < *n {
                        out.push(TV::Timestamp(c));
                    }
                }
            }
            TV::F64(b) => {
                for c in [0f64, 1.0, -1.0, 0.5, 1e16] {
                    if c.to_bits() != *b {
                        out.push(TV::F64(c.to_bits()));
                    }
                }
            }
            TV::Bool(p) => {
                if *p {
                    out.push(TV::Bool(false))
                }
            }
            TV::Str(s) => out.extend(shrink_string(s).into_iter().map(TV::Str)),
            TV::Text(s) => out.extend(shrink_string(s).into_iter().map(TV::Text)),
            TV::Blob(d) => out.extend(vecs(d).into_iter().map(TV::Blob)),
            TV::BigInt(s) => {
                out.push(TV::BigInt("0".into()));
                if s.len() > 2 {
                    out.push(TV::BigInt(s[..s.len() / 2 + 1].to_string()));
                }
            }
            TV::BigUint(s) => {
                out.push(TV::BigUint("0".into()));
                if s.len() > 2 {
                    out.push(TV::BigUint(s[..s.len() / 2 + 1].to_string()));
                }
            }
            TV::VecI32(v) => {
                out.extend(vecs(v).into_iter().map(TV::VecI32));
                for i in 0..v.len().min(8) {
                    if v[i] != 0 {
                        let mut c = v.clone();
                        c[i] = 0;
                        out.push(TV::VecI32(c));
                    }
                }
            }
            TV::VecI64(v) => out.extend(vecs(v).into_iter().map(TV::VecI64)),
            TV::VecU64(v) => out.extend(vecs(v).into_iter().map(TV::VecU64)),
            TV::VecF64(v) => out.extend(vecs(v).into_iter().map(TV::VecF64)),
            TV::VecBool(v) => out.extend(vecs(v).into_iter().map(TV::VecBool)),
            TV::VecStr(v) => out.extend(strs_in(v).into_iter().map(TV::VecStr)),
            TV::VecVecStr(v) => {
                out.extend(vecs(v).into_iter().map(TV::VecVecStr));
                for i in 0..v.len().min(8) {
                    for s in strs_in(&v[i]) {
                        let mut c = v.clone();
                        c[i] = s;
                        out.push(TV::VecVecStr(c));
                    }
                }
            }
            TV::OptI32(v) => {
                if let Some(n) = v {
                    out.push(TV::OptI32(None));
                    ints(*n, &|m| TV::OptI32(Some(m as i32)), &mut out);
                }
            }
            TV::OptStr(v) => {
                if let Some(s) = v {
                    out.push(TV::OptStr(None));
                    out.extend(shrink_string(s).into_iter().map(|s| TV::OptStr(Some(s))));
                }
            }
            TV::OptVecStr(v) => {
                if let Some(s) = v {
                    out.push(TV::OptVecStr(None));
                    out.extend(strs_in(s).into_iter().map(|s| TV::OptVecStr(Some(s))));
                }
            }
            TV::VecOptI32(v) => {
                out.extend(vecs(v).into_iter().map(TV::VecOptI32));
                for i in 0..v.len().min(8) {
                    if v[i].is_some() && v[i] != Some(0) {
                        let mut c = v.clone();
                        c[i] = Some(0);
                        out.push(TV::VecOptI32(c));
                    }
                }
            }
            TV::MapStrI32(m) => {
                let entries: Vec<(String, i32)> = m.iter().map(|(k, v)| (k.clone(), *v)).collect();
                for e in vecs(&entries) {
                    out.push(TV::MapStrI32(e.into_iter().collect()));
                }
                for (k, v) in entries.iter().take(8) {
                    for s in shrink_string(k) {
                        if !m.contains_key(&s) {
                            let mut c = m.clone();
                            c.remove(k);
                            c.insert(s, *v);
                            out.push(TV::MapStrI32(c));
                        }
                    }
                }
            }
            TV::MapI32Str(m) => {
                let entries: Vec<(i32, String)> = m.iter().map(|(k, v)| (*k, v.clone())).collect();
                for e in vecs(&entries) {
                    out.push(TV::MapI32Str(e.into_iter().collect()));
                }
                for (k, v) in entries.iter().take(8) {
                    for s in shrink_string(v) {
                        let mut c = m.clone();
                        c.insert(*k, s);
                        out.push(TV::MapI32Str(c));
                    }
                }
            }
            TV::Plain { a, b, c } => {
                if *a != 0 {
                    out.push(TV::Plain { a: 0, b: b.clone(), c: *c });
                }
                if c.is_some() {
                    out.push(TV::Plain { a: *a, b: b.clone(), c: None });
                }
                for s in shrink_string(b) {
                    out.push(TV::Plain { a: *a, b: s, c: *c });
                }
            }
            TV::Hdr { h, at, x, items } => {
                if *h != 0 {
                    out.push(TV::Hdr { h: 0, at: at.clone(), x: *x, items: items.clone() });
                }
                if *x != 0 {
                    out.push(TV::Hdr { h: *h, at: at.clone(), x: 0, items: items.clone() });
                }
                for s in shrink_string(at) {
                    out.push(TV::Hdr { h: *h, at: s, x: *x, items: items.clone() });
                }
                for s in strs_in(items) {
                    out.push(TV::Hdr { h: *h, at: at.clone(), x: *x, items: s });
                }
            }
            TV::HdrBody { n, m, flag } => {
                if *m != 0 {
                    out.push(TV::HdrBody { n: n.clone(), m: 0, flag: *flag });
                }
                if *flag {
                    out.push(TV::HdrBody { n: n.clone(), m: *m, flag: false });
                }
                for s in shrink_string(n) {
                    out.push(TV::HdrBody { n: s, m: *m, flag: *flag });
                }
            }
            TV::Wrap { n, inner } => {
                if *n != 0 {
                    out.push(TV::Wrap { n: 0, inner: inner.clone() });
                }
                for s in strs_in(inner) {
                    out.push(TV::Wrap { n: *n, inner: s });
                }
            }
            TV::Tup(a, b) => {
                if *a != 0 {
                    out.push(TV::Tup(0, b.clone()));
                }
                for s in shrink_string(b) {
                    out.push(TV::Tup(*a, s));
                }
            }
            TV::ShapeCircle(r) => {
                if *r != 0 {
                    out.push(TV::ShapeCircle(0));
                }
            }
            TV::ShapePair(s, n) => {
                if *n != 0 {
                    out.push(TV::ShapePair(s.clone(), 0));
                }
                for t in shrink_string(s) {
                    out.push(TV::ShapePair(t, *n));
                }
            }
            TV::ShapeHolder { a, b, c, q } => {
                if *a != 0 {
                    out.push(TV::ShapeHolder { a: 0, b: b.clone(), c: *c, q: q.clone() });
                }
                if c.is_some() {
                    out.push(TV::ShapeHolder { a: *a, b: b.clone(), c: None, q: q.clone() });
                }
                if q.is_some() {
                    out.push(TV::ShapeHolder { a: *a, b: b.clone(), c: *c, q: None });
                }
                for s in shrink_string(b) {
                    out.push(TV::ShapeHolder { a: *a, b: s, c: *c, q: q.clone() });
                }
                if let Some(qs) = q {
                    for s in shrink_string(qs) {
                        out.push(TV::ShapeHolder { a: *a, b: b.clone(), c: *c, q: Some(s) });
                    }
                }
            }
            TV::VecPlain(v) => {
                out.extend(vecs(v).into_iter().map(TV::VecPlain));
                for i in 0..v.len().min(8) {
                    for s in shrink_string(&v[i].1) {
                        let mut c = v.clone();
                        c[i].1 = s;
                        out.push(TV::VecPlain(c));
                    }
                }
            }
            TV::HdrVec { n, items, flag } => {
                if !items.is_empty() {
                    out.push(TV::HdrVec { n: *n, items: items[1..].to_vec(), flag: *flag });
                }
                if *n != 0 {
                    out.push(TV::HdrVec { n: 0, items: items.clone(), flag: *flag });
                }
            }
            TV::VecHdrVec(v) => {
                out.extend(vecs(v).into_iter().map(TV::VecHdrVec));
            }
            TV::AttrStruct { a, b, c, n } => {
                if *a != 0 || !b.is_empty() || c.is_some() || *n != 0 {
                    out.push(TV::AttrStruct { a: 0, b: String::new(), c: None, n: 0 });
                }
            }
            TV::AttrOne { z, n } => {
                if *z != 0 || *n != 0 {
                    out.push(TV::AttrOne { z: 0, n: 0 });
                }
            }
            TV::AttrMap { m, n } => {
                if let Some(k) = m.keys().next().cloned() {
                    let mut c = m.clone();
                    c.remove(&k);
                    out.push(TV::AttrMap { m: c, n: *n });
                }
                if *n != 0 {
                    out.push(TV::AttrMap { m: m.clone(), n: 0 });
                }
            }
            TV::AttrOpt { o, n } => {
                if matches!(o, Some(x) if *x != 0) {
                    out.push(TV::AttrOpt { o: Some(0), n: *n });
                }
                if *n != 0 {
                    out.push(TV::AttrOpt { o: *o, n: 0 });
                }
            }
            TV::AttrTuple { a, b, n } => {
                if *a != 0 || !b.is_empty() || *n != 0 {
                    out.push(TV::AttrTuple { a: 0, b: String::new(), n: 0 });
                }
            }
            TV::BodyField { h, b } => {
                if !b.is_empty() {
                    out.push(TV::BodyField { h: *h, b: b[1..].to_vec() });
                }
                if *h != 0 {
                    out.push(TV::BodyField { h: 0, b: b.clone() });
                }
            }
            TV::OptStruct { o, n } => {
                if o.is_some() {
                    out.push(TV::OptStruct { o: None, n: *n });
                    out.push(TV::OptStruct { o: Some((0, String::new(), None)), n: 0 });
                }
            }
            TV::Ev2 { kind, n, v, m, o } => {
                if *n != 0 || !v.is_empty() || !m.is_empty() || matches!(o, Some(x) if *x != 0) {
                    out.push(TV::Ev2 { kind: *kind, n: 0, v: if v.is_empty() { vec![] } else { v[1..].to_vec() }, m: BTreeMap::new(), o: o.map(|_| 0) });
                }
            }
            TV::HbStruct { a, b, c, n } => {
                if *a != 0 || !b.is_empty() || c.is_some() || *n != 0 {
                    out.push(TV::HbStruct { a: 0, b: String::new(), c: None, n: 0 });
                }
            }
            TV::HdrOpt { o, n } => {
                if matches!(o, Some(x) if *x != 0) || *n != 0 {
                    out.push(TV::HdrOpt { o: o.map(|_| 0), n: 0 });
                }
            }
            TV::Hdr2 { a, b, n } => {
                if !b.is_empty() {
                    out.push(TV::Hdr2 { a: *a, b: b[1..].to_vec(), n: *n });
                }
                if *a != 0 || *n != 0 {
                    out.push(TV::Hdr2 { a: 0, b: b.clone(), n: 0 });
                }
            }
            TV::VecOptPlain(v) => {
                if v.len() > 1 {
                    out.push(TV::VecOptPlain(v[1..].to_vec()));
                }
            }
            TV::MapVec { m } => {
                if let Some(k) = m.keys().next().cloned() {
                    let mut c = m.clone();
                    c.remove(&k);
                    out.push(TV::MapVec { m: c });
                }
            }
            TV::HdrBodyVec { v, n } => {
                if !v.is_empty() {
                    out.push(TV::HdrBodyVec { v: v[1..].to_vec(), n: *n });
                }
                if *n != 0 {
                    out.push(TV::HdrBodyVec { v: v.clone(), n: 0 });
                }
            }
            TV::AttrRows { rows, n } => {
                if !rows.is_empty() {
                    out.push(TV::AttrRows { rows: rows[1..].to_vec(), n: *n });
                }
                for (i, r) in rows.iter().enumerate() {
                    if !r.is_empty() {
                        let mut c = rows.clone();
                        c[i] = r[1..].to_vec();
                        out.push(TV::AttrRows { rows: c, n: *n });
                    }
                }
                if *n != 0 {
                    out.push(TV::AttrRows { rows: rows.clone(), n: 0 });
                }
            }
        }
        // `vec![None]` is a class of its own (recorded finding `lone_absent_item`): shrinking must not move into it.
        out.retain(|c| c != self && !matches!(c, TV::VecOptI32(v) if v.len() == 1 && v[0].is_none()));
        if !matches!(self, TV::AttrRows { rows, .. } if rows.is_empty()) {
            out.retain(|c| !matches!(c, TV::AttrRows { rows, .. } if rows.is_empty()));
        }
        if !matches!(self, TV::AttrMap { m, .. } if m.is_empty()) {
            out.retain(|c| !matches!(c, TV::AttrMap { m, .. } if m.is_empty()));
        }
        out
    }
}
