//! W-CODEC / `recon`: decides C09 ("Recon text is a faithful and stable encoding, however it is
//! chunked") by simulating an incremental, arbitrarily chunked text stream.
//!
//! Real code: the three printers, `parse_recognize`, `RecognizerDecoder`, `WithLenRecognizerDecoder`
//! / `WithLenReconEncoder`, `parse_recon_document`, the `Form` derive, `Value` and its recogniser.
//! Harness: `SimPipe` (the byte source), generators, oracles.
//!
//! Oracles (rule ids):
//! * `C09.roundtrip_typed` — typed values and model values the parser itself produced (the result of
//!   parsing a generated text) are recovered exactly by `parse(print_k(v))` for the three printers.
//! * `C09.fixed_point`     — for an arbitrary model value `v`, `print_k(v)` parses, and with
//!   `v1 = parse(print_k(v))`, `parse(print_j(v1)) == v1` for the three printers `j`.
//! * `C09.chunked`         — for every text produced or generated, the first frame of
//!   `FramedRead(SimPipe, RecognizerDecoder)` and of `FramedRead(SimPipe, WithLenRecognizerDecoder)`
//!   (length prefixed) equals the one-shot `parse_recognize(text, false)` result (same value, or an
//!   error / no value iff the one-shot parser errors) for every chunking tested.
//! * `C09.no_panic`, `C09.no_hang`.
//!
//! Deliberately not demanded: NaN / infinities; any particular error *kind* or location; equality
//! stronger than `Value`'s own `==` for model values (typed floats are compared by bit pattern);
//! that the three printers lead to the same normal form; anything about what follows the first
//! complete value in a stream (the product discards the rest of a bounded body).

pub mod gen;
pub mod model;
pub mod pipe;

use std::collections::{BTreeMap, BTreeSet};
use std::fmt::Debug;
use std::panic::{catch_unwind, AssertUnwindSafe};
use std::sync::atomic::{AtomicU32, Ordering};
use std::sync::Arc;

use bytes::{BufMut, BytesMut};
use serde::{Deserialize, Serialize};
use serde_json::{json, Value as Json};
use swimos_form::read::RecognizerReadable;
use swimos_form::write::StructuralWritable;
use swimos_model::{Item, Value};
use swimos_recon::parser::{parse_recognize, parse_recon_document, parse_text_token, AsyncParseError, RecognizerDecoder, Span};
use swimos_recon::{print_recon, print_recon_compact, print_recon_pretty, WithLenRecognizerDecoder, WithLenReconEncoder};
use tokio_util::codec::{Decoder, Encoder};

use crate::core::log::EventLog;
use crate::core::rng::{fnv1a, Rng};
use crate::core::{Outcome, Tier, Violation, World};

use model::{TypedVisitor, TV, VJ};
use pipe::{drive_future, first_frame, panic_message, First, Step};

pub struct ReconWorld;

const PROP: &str = "C09";
/// Texts up to this many bytes get every single cut; longer ones a sample.
const EXHAUSTIVE_LIMIT: usize = 256;
const SAMPLE_CUTS: usize = 64;

// ------------------------------------------------------------------------------------------------
// Scenario
// ------------------------------------------------------------------------------------------------

#[derive(Serialize, Deserialize, Clone, Debug, PartialEq)]
pub struct ReconScenario {
    pub seed: u64,
    pub cases: Vec<Case>,
}

#[derive(Serialize, Deserialize, Clone, Debug, PartialEq)]
pub struct Case {
    pub id: u32,
    pub body: Body,
    /// Single cuts: every position `from <= p < to` (`to = None`: end of the data) is tested
    /// (all of them for data up to `EXHAUSTIVE_LIMIT` bytes, a seeded sample otherwise).
    pub single: Option<CutRange>,
    /// Multi-cuts: explicit chunk sizes / pending flags, applied cyclically.
    pub multi: Vec<Chunking>,
    /// Also feed the text to `parse_recon_document` with this `allow_comments` flag.
    #[serde(default)]
    pub doc: Option<bool>,
}

#[derive(Serialize, Deserialize, Clone, Debug, PartialEq)]
pub struct CutRange {
    pub from: usize,
    pub to: Option<usize>,
    /// Return `Pending` at the cut (odd positions only).
    pub pending: bool,
}

#[derive(Serialize, Deserialize, Clone, Debug, PartialEq)]
pub struct Chunking {
    pub sizes: Vec<usize>,
    pub pend: Vec<bool>,
}

#[derive(Serialize, Deserialize, Clone, Copy, Debug, PartialEq, Eq)]
pub enum RecKind {
    Value,
    I32,
    U64,
    F64,
    Str,
    VecStr,
    MapStrI32,
    OptI32,
    Plain,
    Shape,
}

const REC_KINDS: [RecKind; 9] = [RecKind::I32, RecKind::U64, RecKind::F64, RecKind::Str, RecKind::VecStr, RecKind::MapStrI32, RecKind::OptI32, RecKind::Plain, RecKind::Shape];

#[derive(Serialize, Deserialize, Clone, Debug, PartialEq)]
pub enum Body {
    Typed(TV),
    Model(VJ),
    Text { text: String, rec: RecKind },
    Bytes(Vec<u8>),
}

fn generate(seed: u64, _tier: Tier) -> ReconScenario {
    let root = Rng::new(seed);
    let mut r = root.sub("cases");
    let n = r.range(16, 32);
    let mut cases = vec![];
    for id in 0..n {
        let mut cr = root.sub("case").sub(&id.to_string());
        let body = match cr.below(20) {
            0..=5 => Body::Typed(gen::gen_typed(&mut cr)),
            6..=12 => Body::Model(gen::gen_model(&mut cr)),
            13..=18 => Body::Text { text: gen::gen_text(&mut cr), rec: if cr.chance(1, 3) { *cr.pick(&REC_KINDS) } else { RecKind::Value } },
            _ => Body::Bytes(gen::gen_raw_bytes(&mut cr)),
        };
        let single = if cr.chance(9, 10) { Some(CutRange { from: 0, to: None, pending: cr.chance(1, 2) }) } else { None };
        let m = cr.range(1, 4);
        let multi = (0..m).map(|_| Chunking { sizes: gen::gen_sizes(&mut cr), pend: gen::gen_pend(&mut cr) }).collect();
        let doc = if matches!(body, Body::Text { .. }) && cr.chance(1, 3) { Some(cr.chance(1, 2)) } else { None };
        cases.push(Case { id: id as u32, body, single, multi, doc });
    }
    ReconScenario { seed: root.sub("exec").next_u64(), cases }
}

// ------------------------------------------------------------------------------------------------
// Execution
// ------------------------------------------------------------------------------------------------

#[derive(Clone, Copy, Debug, PartialEq, Eq)]
enum Printer {
    Standard,
    Compact,
    Pretty,
}

const PRINTERS: [Printer; 3] = [Printer::Standard, Printer::Compact, Printer::Pretty];

impl Printer {
    fn name(&self) -> &'static str {
        match self {
            Printer::Standard => "print_recon",
            Printer::Compact => "print_recon_compact",
            Printer::Pretty => "print_recon_pretty",
        }
    }

    fn print<T: StructuralWritable>(&self, v: &T) -> Result<String, String> {
        catch_unwind(AssertUnwindSafe(|| match self {
            Printer::Standard => format!("{}", print_recon(v)),
            Printer::Compact => format!("{}", print_recon_compact(v)),
            Printer::Pretty => format!("{}", print_recon_pretty(v)),
        }))
        .map_err(panic_message)
    }
}

/// Diagnostics only: `VERIF_RECON_FULL=1` disables the truncation of texts / values in details.
fn full() -> bool {
    std::env::var("VERIF_RECON_FULL").is_ok()
}

fn show(s: &str, max: usize) -> String {
    let max = if full() { usize::MAX } else { max };
    let mut out = String::new();
    for (i, c) in s.chars().enumerate() {
        if i >= max {
            out.push_str(&format!("...[{} bytes]", s.len()));
            break;
        }
        if c == '"' || c == '\\' || (c.is_ascii_graphic() || c == ' ') {
            out.push(c);
        } else {
            out.push_str(&c.escape_default().to_string());
        }
    }
    out
}

fn show_dbg<T: Debug>(v: &T, max: usize) -> String {
    let s = format!("{:?}", v);
    if s.len() > max && !full() {
        let mut cut = max;
        while !s.is_char_boundary(cut) {
            cut -= 1;
        }
        format!("{}...[{} bytes]", &s[..cut], s.len())
    } else {
        s
    }
}

struct Ctx<'a> {
    sc: &'a ReconScenario,
    log: EventLog,
    violations: BTreeMap<String, Violation>,
    counters: BTreeMap<&'static str, u64>,
    step: u64,
    /// (label, text) pairs whose chunkings were already tested in this case.
    seen: BTreeSet<(String, String)>,
    progress: Arc<AtomicU32>,
    /// The text tested before the current one (any label): the frame that precedes it in the reuse check.
    prev_text: Option<Vec<u8>>,
}

impl<'a> Ctx<'a> {
    fn count(&mut self, k: &'static str, n: u64) {
        *self.counters.entry(k).or_insert(0) += n;
    }

    fn max(&mut self, k: &'static str, n: u64) {
        let e = self.counters.entry(k).or_insert(0);
        if n > *e {
            *e = n;
        }
    }

    fn rec(&mut self, kind: &str, detail: &str) {
        self.step += 1;
        let s = self.step;
        self.log.rec(s, kind, detail);
    }

    fn violate(&mut self, rule: &str, sig_detail: &str, detail: String) {
        let v = Violation::new(PROP, rule, sig_detail, detail);
        self.rec("VIOLATION", &format!("{} :: {}", v.sig, v.detail));
        self.violations.entry(v.sig.clone()).or_insert(v);
    }
}

/// The byte ranges to serve for one run of a decoder.
fn plan_single(len: usize, p: usize, pending: bool) -> Vec<Step> {
    if p == 0 || p >= len {
        return vec![Step::Chunk(len.max(1))];
    }
    let mut plan = vec![Step::Chunk(p)];
    if pending {
        plan.push(Step::Pending);
    }
    plan.push(Step::Chunk(len - p));
    plan
}

fn plan_multi(len: usize, ch: &Chunking) -> (Vec<Step>, Vec<usize>) {
    let mut plan = vec![];
    let mut cuts = vec![];
    let mut pos = 0usize;
    let mut i = 0usize;
    let sizes: Vec<usize> = if ch.sizes.is_empty() { vec![usize::MAX] } else { ch.sizes.clone() };
    let pend: Vec<bool> = if ch.pend.is_empty() { vec![false] } else { ch.pend.clone() };
    while pos < len {
        if pend[i % pend.len()] {
            plan.push(Step::Pending);
        }
        let n = sizes[i % sizes.len()].max(1).min(len - pos);
        plan.push(Step::Chunk(n));
        pos += n;
        if pos < len {
            cuts.push(pos);
        }
        i += 1;
        if plan.len() > 40_000 {
            // Harness bound; the remainder is served as one chunk.
            break;
        }
    }
    if pend[i % pend.len()] {
        plan.push(Step::Pending); // Pending right before EOF
    }
    (plan, cuts)
}

fn cut_positions(len: usize, range: &CutRange, rng: &mut Rng) -> Vec<usize> {
    let lo = range.from.max(1);
    let hi = range.to.unwrap_or(usize::MAX).min(len);
    if lo >= hi {
        return vec![];
    }
    if len <= EXHAUSTIVE_LIMIT || hi - lo <= SAMPLE_CUTS {
        (lo..hi).collect()
    } else {
        let mut set = BTreeSet::new();
        // Both ends are boundary heavy, the middle is sampled.
        for p in lo..(lo + 16).min(hi) {
            set.insert(p);
        }
        for p in hi.saturating_sub(16).max(lo)..hi {
            set.insert(p);
        }
        while set.len() < SAMPLE_CUTS {
            set.insert(lo + rng.usize_below(hi - lo));
        }
        set.into_iter().collect()
    }
}

fn with_len_frame(text: &[u8]) -> Vec<u8> {
    let mut b = BytesMut::with_capacity(text.len() + 8);
    b.put_u64(text.len() as u64);
    b.put_slice(text);
    b.to_vec()
}

#[derive(Clone, Copy, PartialEq, Eq, Debug)]
enum Dec {
    Recognizer,
    WithLen,
}

impl Dec {
    fn name(&self) -> &'static str {
        match self {
            Dec::Recognizer => "RecognizerDecoder",
            Dec::WithLen => "WithLenRecognizerDecoder",
        }
    }
}

fn describe_plan(plan: &[Step]) -> String {
    let mut s = String::new();
    for (i, st) in plan.iter().enumerate() {
        if i >= 12 {
            s.push_str(&format!(" ...({} steps)", plan.len()));
            break;
        }
        if i > 0 {
            s.push(' ');
        }
        match st {
            Step::Chunk(n) => s.push_str(&n.to_string()),
            Step::Pending => s.push('P'),
        }
    }
    s
}

/// One decode of `data` under `plan`, compared with the one-shot result. Returns a mismatch class.
fn decode_once<T>(
    ctx: &mut Ctx<'_>,
    dec: Dec,
    data: &[u8],
    plan: Vec<Step>,
    expected: &Result<T, String>,
    eq: fn(&T, &T) -> bool,
    text_for_msg: &str,
    label: &str,
) -> Option<&'static str>
where
    T: RecognizerReadable + Debug + Clone + Unpin,
    T::Rec: Unpin,
{
    let plan_desc = describe_plan(&plan);
    let (first, stats, polls) = match dec {
        Dec::Recognizer => first_frame(RecognizerDecoder::new(T::make_recognizer()), data.to_vec(), plan),
        Dec::WithLen => first_frame(WithLenRecognizerDecoder::new(T::make_recognizer()), data.to_vec(), plan),
    };
    ctx.count("decodes", 1);
    ctx.count("polls", polls);
    ctx.count("pending_injected", stats.pendings);
    let class: Option<(&'static str, &'static str, String)> = match (&first, expected) {
        (First::Item(v), Ok(e)) => {
            if eq(v, e) {
                None
            } else {
                Some(("C09.chunked", "value_differs", format!("one-shot={} chunked={}", show_dbg(e, 160), show_dbg(v, 160))))
            }
        }
        (First::Item(v), Err(e)) => Some(("C09.chunked", "ok_where_oneshot_errs", format!("one-shot error={} chunked={}", show(e, 120), show_dbg(v, 160)))),
        (First::Error(err), Ok(e)) => Some(("C09.chunked", "err_where_oneshot_ok", format!("one-shot={} chunked error={}", show_dbg(e, 160), show(&err.to_string(), 160)))),
        (First::End, Ok(e)) => Some(("C09.chunked", "no_value_where_oneshot_ok", format!("one-shot={} chunked: stream ended without a value", show_dbg(e, 160)))),
        (First::Error(_), Err(_)) | (First::End, Err(_)) => {
            ctx.count("parse_errors_agreeing", 1);
            None
        }
        (First::Hang(n), _) => Some(("C09.no_hang", "poll_bound", format!("no result after {n} polls"))),
        (First::Panic(m), _) => Some(("C09.no_panic", "decode", format!("panic: {}", show(m, 200)))),
    };
    if let Some((rule, cls, what)) = class {
        let sig = if rule == "C09.chunked" { format!("{}:{}", dec.name(), cls) } else { format!("{}:{}", cls, dec.name()) };
        ctx.violate(
            rule,
            &sig,
            format!("[{label}] text=`{}` ({} bytes) chunks=[{}] {}", show(text_for_msg, 200), text_for_msg.len(), plan_desc, what),
        );
        Some(cls)
    } else {
        None
    }
}

/// One-shot parse plus all chunkings of one text for one target type. Returns the one-shot result.
fn check_text<T>(ctx: &mut Ctx<'_>, case: &Case, label: &str, text: &str, eq: fn(&T, &T) -> bool) -> Result<T, String>
where
    T: RecognizerReadable + Debug + Clone + Unpin,
    T::Rec: Unpin,
{
    let oneshot: Result<T, String> = match catch_unwind(AssertUnwindSafe(|| parse_recognize::<T>(text, false))) {
        Ok(Ok(v)) => Ok(v),
        Ok(Err(e)) => Err(e.to_string()),
        Err(p) => {
            let m = panic_message(p);
            ctx.violate("C09.no_panic", "parse_recognize", format!("[{label}] text=`{}` panic: {}", show(text, 200), show(&m, 200)));
            Err(format!("panic: {m}"))
        }
    };
    if !ctx.seen.insert((label.to_string(), text.to_string())) {
        return oneshot;
    }
    ctx.count("texts", 1);
    ctx.count("bytes", text.len() as u64);
    if oneshot.is_err() {
        ctx.count("invalid_texts", 1);
    }
    // The text-token entry point of the same parser (identifier or string literal over the whole input): no input
    // may make it panic, and what it accepts is the text value the full parser reads.
    match catch_unwind(AssertUnwindSafe(|| parse_text_token(Span::new(text)).map(|c| c.to_string()).map_err(|e| e.to_string()))) {
        Ok(Ok(_)) => ctx.count("text_tokens_accepted", 1),
        Ok(Err(_)) => ctx.count("text_tokens_rejected", 1),
        Err(p) => {
            let m = panic_message(p);
            ctx.violate("C09.no_panic", "parse_text_token", format!("[{label}] text=`{}` panic: {}", show(text, 200), show(&m, 200)));
        }
    }
    let bytes = text.as_bytes();
    let framed = with_len_frame(bytes);
    let mut rng = Rng::new(ctx.sc.seed).sub("cuts").sub(&case.id.to_string()).sub(&format!("{:x}", fnv1a(bytes)));
    let mut mismatches = 0u64;
    let mut tested = 0u64;

    for dec in [Dec::Recognizer, Dec::WithLen] {
        let (data, off): (&[u8], usize) = match dec {
            Dec::Recognizer => (bytes, 0),
            Dec::WithLen => (&framed, 8),
        };
        // Un-cut baseline.
        let mut failed: BTreeSet<&'static str> = BTreeSet::new();
        if let Some(c) = decode_once(ctx, dec, data, vec![Step::Chunk(data.len().max(1))], &oneshot, eq, text, label) {
            failed.insert(c);
            mismatches += 1;
        }
        if let Some(range) = &case.single {
            for p in cut_positions(data.len(), range, &mut rng) {
                tested += 1;
                note_cut(ctx, bytes, p, off);
                let plan = plan_single(data.len(), p, range.pending && p % 2 == 1);
                if let Some(c) = decode_once(ctx, dec, data, plan, &oneshot, eq, text, label) {
                    mismatches += 1;
                    // One report per class is enough; keep going for the counters only while cheap.
                    if failed.insert(c) && failed.len() >= 3 {
                        break;
                    }
                }
            }
        }
        for ch in &case.multi {
            let (plan, cuts) = plan_multi(data.len(), ch);
            for p in &cuts {
                note_cut(ctx, bytes, *p, off);
            }
            tested += cuts.len() as u64;
            if decode_once(ctx, dec, data, plan, &oneshot, eq, text, label).is_some() {
                mismatches += 1;
            }
        }
    }
    ctx.count("cuts_tested", tested);
    // Reuse: the product keeps one decoder per channel and carries on after a frame that failed to parse. The
    // frame before (the previously tested text, well-formed or not, decoded as the same type) must not change
    // what this frame decodes to.
    if let Some(prev) = ctx.prev_text.replace(bytes.to_vec()) {
        let mut data = BytesMut::from(&with_len_frame(&prev)[..]);
        data.extend_from_slice(&framed);
        let expected = &oneshot;
        let r = catch_unwind(AssertUnwindSafe(|| {
            let mut d = WithLenRecognizerDecoder::new(T::make_recognizer());
            // First frame: whatever it yields.
            let first_was_error = match d.decode(&mut data) {
                Ok(_) => false,
                Err(_) => true,
            };
            let second = match d.decode(&mut data) {
                Ok(Some(v)) => Ok(Some(v)),
                Ok(None) => d.decode_eof(&mut data),
                Err(e) => Err(e),
            };
            (first_was_error, second, data.len())
        }));
        ctx.count("reuse_checks", 1);
        match r {
            Err(p) => ctx.violate("C09.no_panic", "reuse:WithLenRecognizerDecoder", format!("[{label}] previous frame=`{}` text=`{}` panic: {}", show(&String::from_utf8_lossy(&prev), 120), show(text, 120), show(&panic_message(p), 200))),
            Ok((first_err, second, _left)) => {
                if first_err {
                    ctx.count("reuse_after_error", 1);
                }
                let cls = match (&second, expected) {
                    (Ok(Some(v)), Ok(e)) => if eq(v, e) { None } else { Some("value_differs") },
                    (Ok(Some(_)), Err(_)) => Some("ok_where_oneshot_errs"),
                    (Ok(None), Ok(_)) => Some("no_value_where_oneshot_ok"),
                    (Err(_), Ok(_)) => Some("err_where_oneshot_ok"),
                    (Ok(None), Err(_)) | (Err(_), Err(_)) => None,
                };
                if let Some(c) = cls {
                    let after = if first_err { "after_error" } else { "after_ok" };
                    ctx.violate(
                        "C09.reuse",
                        &format!("WithLenRecognizerDecoder:{c}:{after}"),
                        format!("[{label}] previous frame=`{}` text=`{}`: on a decoder that has already decoded the previous frame this frame gives {}, alone it gives {}", show(&String::from_utf8_lossy(&prev), 120), show(text, 120), match &second { Ok(Some(v)) => show_dbg(v, 120), Ok(None) => "no value".into(), Err(e) => format!("error {}", show(&e.to_string(), 120)) }, match expected { Ok(v) => show_dbg(v, 120), Err(e) => format!("error {}", show(e, 80)) }),
                    );
                }
            }
        }
    }
    // Reuse after a LATE failure: the same text with its end damaged (most of a structure has been read when the
    // frame turns out to be bad), then the intact text on the same decoder.
    if oneshot.is_ok() && bytes.len() >= 2 {
        for (what, damaged) in [("cut_short", bytes[..bytes.len() - 1].to_vec()), ("bad_tail", { let mut b = bytes[..bytes.len() - 1].to_vec(); b.extend_from_slice(b",@"); b })] {
            let mut data = BytesMut::from(&with_len_frame(&damaged)[..]);
            data.extend_from_slice(&framed);
            let r = catch_unwind(AssertUnwindSafe(|| {
                let mut d = WithLenRecognizerDecoder::new(T::make_recognizer());
                let first_was_error = d.decode(&mut data).is_err();
                let second = match d.decode(&mut data) {
                    Ok(Some(v)) => Ok(Some(v)),
                    Ok(None) => d.decode_eof(&mut data),
                    Err(e) => Err(e),
                };
                (first_was_error, second)
            }));
            ctx.count("reuse_checks_late_failure", 1);
            match r {
                Err(p) => ctx.violate("C09.no_panic", "reuse_late:WithLenRecognizerDecoder", format!("[{label}] text=`{}` ({what}) panic: {}", show(text, 120), show(&panic_message(p), 200))),
                Ok((first_err, second)) => {
                    if !first_err {
                        continue;
                    }
                    ctx.count("reuse_after_late_error", 1);
                    let cls = match (&second, &oneshot) {
                        (Ok(Some(v)), Ok(e)) => if eq(v, e) { None } else { Some("value_differs") },
                        (Ok(None), Ok(_)) => Some("no_value_where_oneshot_ok"),
                        (Err(_), Ok(_)) => Some("err_where_oneshot_ok"),
                        _ => None,
                    };
                    if let Some(c) = cls {
                        ctx.violate(
                            "C09.reuse",
                            &format!("WithLenRecognizerDecoder:{c}:after_late_error"),
                            format!("[{label}] text=`{}`: after the same text with a damaged end ({what}) had failed on this decoder, the intact text gives {}, alone it gives {}", show(text, 120), match &second { Ok(Some(v)) => show_dbg(v, 120), Ok(None) => "no value".into(), Err(e) => format!("error {}", show(&e.to_string(), 120)) }, match &oneshot { Ok(v) => show_dbg(v, 120), Err(e) => format!("error {}", show(e, 80)) }),
                        );
                    }
                }
            }
        }
    }
    let res = match &oneshot {
        Ok(v) => format!("ok {}", show_dbg(v, 120)),
        Err(e) => format!("err {}", show(e, 80)),
    };
    ctx.rec("text", &format!("[{label}] `{}` len={} one-shot={} cuts={} mismatches={}", show(text, 120), text.len(), res, tested, mismatches));
    oneshot
}

fn note_cut(ctx: &mut Ctx<'_>, text: &[u8], p: usize, off: usize) {
    if p <= off {
        if off > 0 && p > 0 {
            ctx.count("cuts_inside_length_prefix", 1);
        }
        return;
    }
    let q = p - off;
    if q == 0 || q >= text.len() {
        return;
    }
    if text[q] & 0xc0 == 0x80 {
        ctx.count("cuts_inside_multibyte", 1);
    }
    if !text[q - 1].is_ascii_whitespace() && !text[q].is_ascii_whitespace() {
        ctx.count("cuts_inside_token", 1);
    }
}

fn eq_value(a: &Value, b: &Value) -> bool {
    a == b
}

#[derive(Clone, Copy, PartialEq, Eq)]
enum Source {
    /// An arbitrary generated model value: only the fixed-point clause applies.
    Arbitrary,
    /// A value the parser produced: must round trip exactly.
    Parsed,
}

/// NaN / infinities are outside the property ("floating point values being finite"). The parser can
/// produce them (`1e400` reads as +inf) and the printers write `inf` / `NaN`, which read back as
/// text; such values are exempt from the round-trip clauses (not from no-panic / chunking).
fn has_non_finite(v: &Value) -> bool {
    match v {
        Value::Float64Value(x) => !x.is_finite(),
        Value::Record(attrs, items) => {
            attrs.iter().any(|a| has_non_finite(&a.value))
                || items.iter().any(|i| match i {
                    Item::ValueItem(v) => has_non_finite(v),
                    Item::Slot(k, v) => has_non_finite(k) || has_non_finite(v),
                })
        }
        _ => false,
    }
}

fn has_nan(v: &Value) -> bool {
    match v {
        Value::Float64Value(x) => x.is_nan(),
        Value::Record(attrs, items) => {
            attrs.iter().any(|a| has_nan(&a.value))
                || items.iter().any(|i| match i {
                    Item::ValueItem(v) => has_nan(v),
                    Item::Slot(k, v) => has_nan(k) || has_nan(v),
                })
        }
        _ => false,
    }
}

fn run_model(ctx: &mut Ctx<'_>, case: &Case, v: &Value, source: Source) {
    if has_nan(v) {
        // NaN is not equal to itself: "reads back equal" is undefined for it.
        ctx.count("skipped_nan_values", 1);
        return;
    }
    let inf_tag = if has_non_finite(v) { ":infinite_float" } else { "" };
    for k in PRINTERS {
        let t = match k.print(v) {
            Ok(t) => t,
            Err(m) => {
                ctx.violate("C09.no_panic", &format!("print:{}", k.name()), format!("value={} panic: {}", show_dbg(v, 200), show(&m, 200)));
                continue;
            }
        };
        let r = check_text::<Value>(ctx, case, "value", &t, eq_value);
        match (source, r) {
            (Source::Parsed, Err(e)) => ctx.violate(
                "C09.roundtrip_typed",
                &format!("parsed_value:{}:parse_error{inf_tag}", k.name()),
                format!("value (produced by the parser)={} printed=`{}` does not parse: {}", show_dbg(v, 200), show(&t, 200), show(&e, 120)),
            ),
            (Source::Parsed, Ok(v2)) => {
                if &v2 != v {
                    ctx.violate(
                        "C09.roundtrip_typed",
                        &format!("parsed_value:{}:value_differs{}{inf_tag}", k.name(), d4_tag(v)),
                        format!("value (produced by the parser)={} printed=`{}` parsed back={}", show_dbg(v, 200), show(&t, 200), show_dbg(&v2, 200)),
                    );
                }
            }
            (Source::Arbitrary, Err(e)) => ctx.violate(
                "C09.fixed_point",
                &format!("unparseable:{}{inf_tag}", k.name()),
                format!("value={} printed=`{}` does not parse: {}", show_dbg(v, 200), show(&t, 200), show(&e, 120)),
            ),
            (Source::Arbitrary, Ok(v1)) => {
                if has_non_finite(&v1) {
                    // e.g. f64::MAX printed by `{:e}` inside an attribute cannot overflow, but be safe.
                    ctx.count("skipped_non_finite_values", 1);
                    continue;
                }
                for j in PRINTERS {
                    let t2 = match j.print(&v1) {
                        Ok(t) => t,
                        Err(m) => {
                            ctx.violate("C09.no_panic", &format!("print:{}", j.name()), format!("value={} panic: {}", show_dbg(&v1, 200), show(&m, 200)));
                            continue;
                        }
                    };
                    match check_text::<Value>(ctx, case, "value", &t2, eq_value) {
                        Err(e) => ctx.violate(
                            "C09.fixed_point",
                            &format!("second_cycle_unparseable:{}", j.name()),
                            format!(
                                "v={} -{}-> `{}` -> v1={} -{}-> `{}` does not parse: {}",
                                show_dbg(v, 160),
                                k.name(),
                                show(&t, 160),
                                show_dbg(&v1, 160),
                                j.name(),
                                show(&t2, 160),
                                show(&e, 100)
                            ),
                        ),
                        Ok(v2) => {
                            if v2 != v1 {
                                ctx.violate(
                                    "C09.fixed_point",
                                    &format!("not_fixed:{}{}", j.name(), d4_tag(&v1)),
                                    format!(
                                        "v={} -{}-> `{}` -> v1={} -{}-> `{}` -> v2={} != v1",
                                        show_dbg(v, 160),
                                        k.name(),
                                        show(&t, 160),
                                        show_dbg(&v1, 160),
                                        j.name(),
                                        show(&t2, 160),
                                        show_dbg(&v2, 160)
                                    ),
                                );
                            }
                        }
                    }
                }
            }
        }
    }
    check_encoder(ctx, v, "value");
}

/// The length-prefixed encoder must produce `len ++ print_recon_compact(v)`, which is what
/// `check_text` fed to `WithLenRecognizerDecoder` for the compact text.
fn check_encoder<T: StructuralWritable + Debug>(ctx: &mut Ctx<'_>, v: &T, label: &str) {
    let r = catch_unwind(AssertUnwindSafe(|| {
        let mut buf = BytesMut::new();
        let mut enc = WithLenReconEncoder;
        enc.encode(v, &mut buf).map(|_| buf.to_vec())
    }));
    match r {
        Ok(Ok(frame)) => {
            if let Ok(t) = Printer::Compact.print(v) {
                if frame != with_len_frame(t.as_bytes()) {
                    ctx.violate(
                        "C09.chunked",
                        "WithLenReconEncoder:framing",
                        format!("[{label}] value={} encoder output is not len ++ compact text `{}`: {:?}", show_dbg(v, 160), show(&t, 160), &frame[..frame.len().min(48)]),
                    );
                }
            }
            ctx.count("encoder_frames", 1);
        }
        Ok(Err(e)) => ctx.violate("C09.chunked", "WithLenReconEncoder:error", format!("[{label}] value={} encoder error {e}", show_dbg(v, 160))),
        Err(p) => ctx.violate("C09.no_panic", "WithLenReconEncoder", format!("[{label}] value={} panic: {}", show_dbg(v, 160), show(&panic_message(p), 200))),
    }
}

struct TypedRunner<'c, 'a> {
    ctx: &'c mut Ctx<'a>,
    case: &'c Case,
    infinite_float: bool,
    lone_absent_item: bool,
    empty_attr_vec: bool,
    attr_single_slot: bool,
}

impl<'c, 'a> TypedRunner<'c, 'a> {
    fn tag(&self) -> &'static str {
        if self.infinite_float {
            ":infinite_float"
        } else if self.lone_absent_item {
            ":lone_absent_item"
        } else if self.empty_attr_vec {
            ":empty_attr_vec"
        } else if self.attr_single_slot {
            ":attr_single_slot"
        } else {
            ""
        }
    }
}

impl<'c, 'a> TypedVisitor for TypedRunner<'c, 'a> {
    fn note_infinite_float(&mut self, present: bool) {
        self.infinite_float = present;
    }

    fn note_lone_absent_item(&mut self, present: bool) {
        self.lone_absent_item = present;
    }

    fn note_empty_attr_vec(&mut self, present: bool) {
        self.empty_attr_vec = present;
    }

    fn note_attr_single_slot(&mut self, present: bool) {
        self.attr_single_slot = present;
    }

    fn visit<T>(&mut self, type_name: &'static str, value: T, eq: fn(&T, &T) -> bool)
    where
        T: StructuralWritable + RecognizerReadable + Debug + Clone + Unpin,
        T::Rec: Unpin,
    {
        for k in PRINTERS {
            let t = match k.print(&value) {
                Ok(t) => t,
                Err(m) => {
                    self.ctx.violate("C09.no_panic", &format!("print:{}", k.name()), format!("[{type_name}] value={} panic: {}", show_dbg(&value, 200), show(&m, 200)));
                    continue;
                }
            };
            match check_text::<T>(self.ctx, self.case, type_name, &t, eq) {
                Err(e) => self.ctx.violate(
                    "C09.roundtrip_typed",
                    &format!("typed:{}:parse_error{}", k.name(), self.tag()),
                    format!("[{type_name}] value={} printed=`{}` does not parse: {}", show_dbg(&value, 200), show(&t, 200), show(&e, 120)),
                ),
                Ok(v2) => {
                    if !eq(&value, &v2) {
                        self.ctx.violate(
                            "C09.roundtrip_typed",
                            &format!("typed:{}:value_differs{}", k.name(), self.tag()),
                            format!("[{type_name}] value={} printed=`{}` parsed back={}", show_dbg(&value, 200), show(&t, 200), show_dbg(&v2, 200)),
                        );
                    }
                }
            }
        }
        check_encoder(self.ctx, &value, type_name);
    }
}

fn eq_std<T: PartialEq>(a: &T, b: &T) -> bool {
    a == b
}

fn eq_f64(a: &f64, b: &f64) -> bool {
    // A text may legitimately denote NaN-free values only; compare bits, but treat any two NaNs alike.
    a.to_bits() == b.to_bits() || (a.is_nan() && b.is_nan())
}

fn run_text(ctx: &mut Ctx<'_>, case: &Case, text: &str, rec: RecKind) {
    let r = check_text::<Value>(ctx, case, "value", text, eq_value);
    if let Ok(v) = &r {
        ctx.max("max_depth", value_depth(v));
        run_model(ctx, case, v, Source::Parsed);
    }
    match rec {
        RecKind::Value => {}
        RecKind::I32 => drop(check_text::<i32>(ctx, case, "i32", text, eq_std)),
        RecKind::U64 => drop(check_text::<u64>(ctx, case, "u64", text, eq_std)),
        RecKind::F64 => drop(check_text::<f64>(ctx, case, "f64", text, eq_f64)),
        RecKind::Str => drop(check_text::<String>(ctx, case, "string", text, eq_std)),
        RecKind::VecStr => drop(check_text::<Vec<String>>(ctx, case, "vec_string", text, eq_std)),
        RecKind::MapStrI32 => drop(check_text::<std::collections::HashMap<String, i32>>(ctx, case, "map_string_i32", text, eq_std)),
        RecKind::OptI32 => drop(check_text::<Option<i32>>(ctx, case, "opt_i32", text, eq_std)),
        RecKind::Plain => drop(check_text::<model::Plain>(ctx, case, "struct_plain", text, eq_std)),
        RecKind::Shape => drop(check_text::<model::Shape>(ctx, case, "enum_shape", text, eq_std)),
    }
    if let Some(comments) = case.doc {
        run_document(ctx, case, text, comments);
    }
}

fn value_depth(v: &Value) -> u64 {
    match v {
        Value::Record(attrs, items) => {
            let a = attrs.iter().map(|a| value_depth(&a.value)).max().unwrap_or(0);
            let i = items
                .iter()
                .map(|i| match i {
                    Item::ValueItem(v) => value_depth(v),
                    Item::Slot(k, v) => value_depth(k).max(value_depth(v)),
                })
                .max()
                .unwrap_or(0);
            1 + a.max(i)
        }
        _ => 0,
    }
}

/// `parse_recon_document` (the incremental reader of configuration files, comments optional): its
/// result must not depend on the chunking, and where it yields items they must be those the
/// one-shot parser sees in `{` text `}`. (It additionally rejects trailing input, which the
/// one-shot parser ignores: an `UnconsumedInput` error against a one-shot success is accepted.)
fn run_document(ctx: &mut Ctx<'_>, case: &Case, text: &str, comments: bool) {
    let data = text.as_bytes().to_vec();
    let wrapped = format!("{{{}}}", text);
    let oneshot: Result<Value, String> = match catch_unwind(AssertUnwindSafe(|| parse_recognize::<Value>(wrapped.as_str(), comments))) {
        Ok(Ok(v)) => Ok(v),
        Ok(Err(e)) => Err(e.to_string()),
        Err(p) => {
            let m = panic_message(p);
            ctx.violate("C09.no_panic", "parse_recognize", format!("[document comments={comments}] text=`{}` panic: {}", show(&wrapped, 200), show(&m, 200)));
            Err(format!("panic: {m}"))
        }
    };
    let run = |ctx: &mut Ctx<'_>, plan: Vec<Step>| -> Option<Result<Vec<Item>, AsyncParseError>> {
        let desc = describe_plan(&plan);
        let (first, polls) = drive_future(|pipe| parse_recon_document(pipe, comments), data.clone(), plan);
        ctx.count("document_parses", 1);
        ctx.count("polls", polls);
        match first {
            First::Item(r) => Some(r),
            First::Hang(n) => {
                ctx.violate("C09.no_hang", "poll_bound:parse_recon_document", format!("text=`{}` chunks=[{desc}] no result after {n} polls", show(text, 200)));
                None
            }
            First::Panic(m) => {
                ctx.violate("C09.no_panic", "parse_recon_document", format!("text=`{}` chunks=[{desc}] panic: {}", show(text, 200), show(&m, 200)));
                None
            }
            _ => None,
        }
    };
    let Some(base) = run(ctx, vec![Step::Chunk(data.len().max(1))]) else { return };
    match (&base, &oneshot) {
        (Ok(items), Ok(v)) => {
            if &Value::Record(vec![], items.clone()) != v {
                ctx.violate(
                    "C09.chunked",
                    "parse_recon_document:value_differs_from_oneshot",
                    format!("comments={comments} text=`{}` document={} one-shot of {{text}}={}", show(text, 200), show_dbg(items, 160), show_dbg(v, 160)),
                );
            }
        }
        (Ok(items), Err(e)) => ctx.violate(
            "C09.chunked",
            "parse_recon_document:ok_where_oneshot_errs",
            format!("comments={comments} text=`{}` document={} one-shot error={}", show(text, 200), show_dbg(items, 160), show(e, 120)),
        ),
        (Err(AsyncParseError::UnconsumedInput), Ok(_)) => {}
        (Err(e), Ok(v)) => ctx.violate(
            "C09.chunked",
            "parse_recon_document:err_where_oneshot_ok",
            format!("comments={comments} text=`{}` document error={} one-shot of {{text}}={}", show(text, 200), show(&e.to_string(), 120), show_dbg(v, 160)),
        ),
        (Err(_), Err(_)) => ctx.count("parse_errors_agreeing", 1),
    }
    let mut rng = Rng::new(ctx.sc.seed).sub("doc-cuts").sub(&case.id.to_string());
    let mut plans: Vec<Vec<Step>> = vec![];
    if let Some(range) = &case.single {
        for p in cut_positions(data.len(), range, &mut rng) {
            plans.push(plan_single(data.len(), p, range.pending && p % 2 == 1));
        }
    }
    for ch in &case.multi {
        plans.push(plan_multi(data.len(), ch).0);
    }
    let mut reported = false;
    for plan in plans {
        let desc = describe_plan(&plan);
        let Some(r) = run(ctx, plan) else { continue };
        let same = match (&base, &r) {
            (Ok(a), Ok(b)) => a == b,
            (Err(_), Err(_)) => true,
            _ => false,
        };
        if !same && !reported {
            reported = true;
            let f = |r: &Result<Vec<Item>, AsyncParseError>| match r {
                Ok(i) => format!("ok {}", show_dbg(i, 160)),
                Err(e) => format!("err {}", show(&e.to_string(), 120)),
            };
            ctx.violate(
                "C09.chunked",
                "parse_recon_document:depends_on_chunking",
                format!("comments={comments} text=`{}` unchunked={} chunks=[{desc}] -> {}", show(text, 200), f(&base), f(&r)),
            );
        }
    }
    ctx.rec("document", &format!("comments={comments} `{}` base={}", show(text, 120), if base.is_ok() { "ok" } else { "err" }));
}

/// Bytes that are not UTF-8: there is no one-shot result to compare with; only "no panic, no hang".
fn run_bytes(ctx: &mut Ctx<'_>, case: &Case, data: &[u8]) {
    ctx.count("raw_byte_inputs", 1);
    let framed = with_len_frame(data);
    let mut rng = Rng::new(ctx.sc.seed).sub("cuts").sub(&case.id.to_string());
    let lossy = String::from_utf8_lossy(data).to_string();
    for dec in [Dec::Recognizer, Dec::WithLen] {
        let d: &[u8] = if dec == Dec::Recognizer { data } else { &framed };
        let mut plans = vec![vec![Step::Chunk(d.len().max(1))]];
        if let Some(range) = &case.single {
            for p in cut_positions(d.len(), range, &mut rng) {
                plans.push(plan_single(d.len(), p, range.pending && p % 2 == 1));
            }
        }
        for ch in &case.multi {
            plans.push(plan_multi(d.len(), ch).0);
        }
        let mut outcomes: BTreeMap<&'static str, u64> = BTreeMap::new();
        for plan in plans {
            let desc = describe_plan(&plan);
            let (first, stats, polls) = match dec {
                Dec::Recognizer => first_frame(RecognizerDecoder::new(Value::make_recognizer()), d.to_vec(), plan),
                Dec::WithLen => first_frame(WithLenRecognizerDecoder::new(Value::make_recognizer()), d.to_vec(), plan),
            };
            ctx.count("decodes", 1);
            ctx.count("polls", polls);
            ctx.count("pending_injected", stats.pendings);
            let o = match first {
                First::Item(_) => "value",
                First::Error(_) => "error",
                First::End => "end",
                First::Hang(n) => {
                    ctx.violate("C09.no_hang", &format!("poll_bound:{}", dec.name()), format!("[raw bytes] data(lossy)=`{}` chunks=[{desc}] no result after {n} polls", show(&lossy, 200)));
                    "hang"
                }
                First::Panic(m) => {
                    ctx.violate("C09.no_panic", &format!("decode:{}", dec.name()), format!("[raw bytes] data(lossy)=`{}` chunks=[{desc}] panic: {}", show(&lossy, 200), show(&m, 200)));
                    "panic"
                }
            };
            *outcomes.entry(o).or_insert(0) += 1;
        }
        ctx.rec("bytes", &format!("{} `{}` outcomes={:?}", dec.name(), show(&lossy, 120), outcomes));
    }
}

fn run_case(ctx: &mut Ctx<'_>, case: &Case) {
    ctx.seen.clear();
    ctx.count("cases", 1);
    ctx.progress.store(case.id, Ordering::Relaxed);
    match &case.body {
        Body::Typed(tv) => {
            ctx.rec("case", &format!("#{} typed {}", case.id, tv.type_name()));
            ctx.count("cases_typed", 1);
            let mut runner = TypedRunner { ctx, case, infinite_float: false, lone_absent_item: false, empty_attr_vec: false, attr_single_slot: false };
            tv.dispatch(&mut runner);
        }
        Body::Model(vj) => {
            ctx.rec("case", &format!("#{} model depth={}", case.id, vj.depth()));
            ctx.count("cases_model", 1);
            ctx.max("max_depth", vj.depth());
            if vj.depth() >= 32 {
                ctx.count("cases_depth_ge_32", 1);
            }
            if vj.depth() >= 64 {
                ctx.count("cases_depth_64", 1);
            }
            let v = vj.build();
            run_model(ctx, case, &v, Source::Arbitrary);
        }
        Body::Text { text, rec } => {
            ctx.rec("case", &format!("#{} text len={} rec={:?}", case.id, text.len(), rec));
            ctx.count("cases_text", 1);
            run_text(ctx, case, text, *rec);
        }
        Body::Bytes(b) => {
            ctx.rec("case", &format!("#{} bytes len={}", case.id, b.len()));
            ctx.count("cases_bytes", 1);
            run_bytes(ctx, case, b);
        }
    }
}

fn execute_inner(sc: &ReconScenario, keep_log: bool, progress: Arc<AtomicU32>) -> Outcome {
    let mut ctx = Ctx {
        sc,
        log: EventLog::new(keep_log),
        violations: BTreeMap::new(),
        counters: BTreeMap::new(),
        step: 0,
        seen: BTreeSet::new(),
        progress,
        prev_text: None,
    };
    for case in &sc.cases {
        run_case(&mut ctx, case);
    }
    let mut violations: Vec<Violation> = ctx.violations.values().cloned().collect();
    // `WithLenRecognizerDecoder` is the decoder of the typed Recon body inside the length-delimited binary frames of the
    // agent protocol: what it does under fragmentation, and after a frame that failed, is the subject of C10 as well.
    let mirrored: Vec<Violation> = violations
        .iter()
        .filter(|v| v.property == "C09" && v.sig.contains("WithLenRecognizerDecoder"))
        .map(|v| Violation { property: "C10".to_string(), rule: v.rule.replacen("C09.", "C10.", 1), sig: v.sig.replacen("C09.", "C10.", 1), detail: v.detail.clone() })
        .collect();
    violations.extend(mirrored);
    let mut out = Outcome {
        violations,
        log_hash: ctx.log.hash(),
        log_lines: ctx.log.lines().to_vec(),
        steps: ctx.counters.get("polls").copied().unwrap_or(0),
        ..Default::default()
    };
    for (k, v) in &ctx.counters {
        out.count(k, *v);
    }
    out.nontrivial = ctx.counters.get("cuts_inside_token").copied().unwrap_or(0) > 0;
    out
}

impl World for ReconWorld {
    fn name(&self) -> &'static str {
        "recon"
    }

    fn generate(&self, seed: u64, tier: Tier) -> Json {
        serde_json::to_value(generate(seed, tier)).unwrap()
    }

    fn execute(&self, scenario: &Json, keep_log: bool) -> Outcome {
        let sc: ReconScenario = match serde_json::from_value(scenario.clone()) {
            Ok(s) => s,
            Err(e) => return Outcome { harness_error: Some(format!("bad scenario: {e}")), ..Default::default() },
        };
        // Fail-safe only: a synchronous endless loop inside a decoder call cannot be seen by the poll
        // bound, so the cases run on an inner thread that is abandoned after a generous wall-clock
        // limit (never reached by a terminating run: a run takes milliseconds).
        let progress = Arc::new(AtomicU32::new(0));
        let p2 = progress.clone();
        let (tx, rx) = std::sync::mpsc::channel();
        let spawned = std::thread::Builder::new().name("recon-run".into()).stack_size(32 << 20).spawn(move || {
            let out = execute_inner(&sc, keep_log, p2);
            let _ = tx.send(out);
        });
        let handle = match spawned {
            Ok(h) => h,
            Err(e) => return Outcome { harness_error: Some(format!("spawn failed: {e}")), ..Default::default() },
        };
        let limit = std::env::var("VERIF_RECON_WATCHDOG_SECS").ok().and_then(|s| s.parse::<u64>().ok()).unwrap_or(60);
        match rx.recv_timeout(std::time::Duration::from_secs(limit)) {
            Ok(out) => {
                let _ = handle.join();
                out
            }
            Err(std::sync::mpsc::RecvTimeoutError::Timeout) => {
                let id = progress.load(Ordering::Relaxed);
                Outcome {
                    violations: vec![Violation::new(PROP, "C09.no_hang", "synchronous_loop", format!("case #{id} did not terminate within {limit} s of wall-clock time"))],
                    log_hash: 0xdead,
                    log_lines: vec![format!("case #{id} hung")],
                    ..Default::default()
                }
            }
            Err(std::sync::mpsc::RecvTimeoutError::Disconnected) => {
                let msg = match handle.join() {
                    Err(p) => panic_message(p),
                    Ok(()) => "inner thread ended without a result".to_string(),
                };
                Outcome { harness_error: Some(format!("harness panic in case #{}: {msg}", progress.load(Ordering::Relaxed))), ..Default::default() }
            }
        }
    }

    fn shrink(&self, scenario: &Json) -> Vec<Json> {
        let Ok(sc) = serde_json::from_value::<ReconScenario>(scenario.clone()) else { return vec![] };
        shrink(&sc).into_iter().map(|s| serde_json::to_value(s).unwrap()).collect()
    }

    fn rule(&self) -> String {
        format!(
            "one run = 16..32 cases drawn from the seed: typed values (numeric limits, finite floats incl. subnormal / -0.0 / integers-as-floats, \
             Unicode strings incl. non-BMP / combining / control / quotes / backslashes / keywords, Vec, Option, HashMap, derived structs and enums), \
             model Values (all primitive kinds incl. BigInt/BigUint and blobs, non-identifier attribute names, records as slot keys, singleton records, Extant in \
             every position, nesting up to depth 64), grammar-generated and mutated Recon texts (valid and invalid, up to 4 KiB) and non-UTF-8 byte strings; \
             every text (generated, or printed by one of the three printers) is parsed one-shot and decoded through SimPipe by RecognizerDecoder and \
             WithLenRecognizerDecoder with every single cut (all positions for texts <= {EXHAUSTIVE_LIMIT} bytes, {SAMPLE_CUTS} sampled positions otherwise, \
             optionally with Pending at the cut) and 1..4 random multi-cut chunkings (chunks down to 1 byte, Pending between chunks and before EOF); \
             non-trivial = at least one tested cut fell inside a token (both neighbouring bytes are not white space); \
             distinct = distinct hash of the recorded history (every text with its one-shot result, number of cuts and mismatches); \
             counter max_depth is the per-run maximum nesting depth (the check driver sums it over the runs; cases_depth_ge_32 / cases_depth_64 count deep cases)"
        )
    }

    fn components(&self) -> Json {
        json!({
            "real": ["swimos_recon::print_recon / print_recon_compact / print_recon_pretty", "swimos_recon::parser::parse_recognize", "swimos_recon::parser::RecognizerDecoder",
                     "swimos_recon::WithLenRecognizerDecoder + WithLenReconEncoder (swimos_utilities consume_bounded)", "swimos_recon::parser::parse_recon_document",
                     "swimos_form derive(Form), StructuralWritable / Recognizer impls", "swimos_model::Value (its own ==)", "tokio_util::codec::FramedRead"],
            "stub": ["SimPipe (AsyncRead byte source with explicit chunk plan, Pending, EOF)", "no-op waker poll loop with poll bound instead of a runtime"]
        })
    }
}

// ------------------------------------------------------------------------------------------------
// Shrinking: one case; then the value / text; then the chunking.
// ------------------------------------------------------------------------------------------------

fn shrink_text(s: &str) -> Vec<String> {
    model::shrink_string(s)
}

fn shrink(sc: &ReconScenario) -> Vec<ReconScenario> {
    let mut out = vec![];
    let n = sc.cases.len();
    if n > 1 {
        if n > 3 {
            out.push(ReconScenario { seed: sc.seed, cases: sc.cases[..n / 2].to_vec() });
            out.push(ReconScenario { seed: sc.seed, cases: sc.cases[n / 2..].to_vec() });
        }
        for c in &sc.cases {
            out.push(ReconScenario { seed: sc.seed, cases: vec![c.clone()] });
        }
        return out;
    }
    let Some(case) = sc.cases.first() else { return out };
    let with = |c: Case| ReconScenario { seed: sc.seed, cases: vec![c] };
    // 1. Fewer kinds of work.
    if case.doc.is_some() {
        out.push(with(Case { doc: None, ..case.clone() }));
    }
    if let Body::Text { text, rec } = &case.body {
        if *rec != RecKind::Value {
            out.push(with(Case { body: Body::Text { text: text.clone(), rec: RecKind::Value }, ..case.clone() }));
        }
    }
    // 2. The value / text.
    match &case.body {
        Body::Typed(tv) => {
            for s in tv.shrink() {
                out.push(with(Case { body: Body::Typed(s), ..case.clone() }));
            }
        }
        Body::Model(vj) => {
            for s in vj.shrink() {
                out.push(with(Case { body: Body::Model(s), ..case.clone() }));
            }
        }
        Body::Text { text, rec } => {
            for s in shrink_text(text) {
                out.push(with(Case { body: Body::Text { text: s, rec: *rec }, ..case.clone() }));
            }
        }
        Body::Bytes(b) => {
            if b.len() > 1 {
                out.push(with(Case { body: Body::Bytes(b[..b.len() / 2].to_vec()), ..case.clone() }));
                out.push(with(Case { body: Body::Bytes(b[b.len() / 2..].to_vec()), ..case.clone() }));
                for i in 0..b.len().min(64) {
                    let mut c = b.clone();
                    c.remove(i);
                    out.push(with(Case { body: Body::Bytes(c), ..case.clone() }));
                }
            }
        }
    }
    // 3. The chunking.
    if case.single.is_some() && !case.multi.is_empty() {
        out.push(with(Case { multi: vec![], ..case.clone() }));
        out.push(with(Case { single: None, ..case.clone() }));
    }
    if case.single.is_some() && case.multi.is_empty() {
        out.push(with(Case { single: None, ..case.clone() }));
    }
    if let Some(r) = &case.single {
        if r.pending {
            out.push(with(Case { single: Some(CutRange { pending: false, ..r.clone() }), ..case.clone() }));
        }
        match r.to {
            None => out.push(with(Case { single: Some(CutRange { to: Some(1 << 16), ..r.clone() }), ..case.clone() })),
            Some(to) if to > r.from + 1 => {
                let mid = r.from + (to - r.from) / 2;
                out.push(with(Case { single: Some(CutRange { to: Some(mid), ..r.clone() }), ..case.clone() }));
                out.push(with(Case { single: Some(CutRange { from: mid, ..r.clone() }), ..case.clone() }));
            }
            _ => {}
        }
    }
    if case.multi.len() > 1 {
        for i in 0..case.multi.len() {
            out.push(with(Case { multi: vec![case.multi[i].clone()], ..case.clone() }));
        }
    }
    if case.multi.len() == 1 {
        let ch = &case.multi[0];
        if ch.pend.iter().any(|p| *p) {
            out.push(with(Case { multi: vec![Chunking { sizes: ch.sizes.clone(), pend: vec![false] }], ..case.clone() }));
        }
        if ch.sizes.len() > 1 {
            out.push(with(Case { multi: vec![Chunking { sizes: ch.sizes[..ch.sizes.len() / 2].to_vec(), pend: ch.pend.clone() }], ..case.clone() }));
            out.push(with(Case { multi: vec![Chunking { sizes: ch.sizes[ch.sizes.len() / 2..].to_vec(), pend: ch.pend.clone() }], ..case.clone() }));
            out.push(with(Case { multi: vec![Chunking { sizes: vec![*ch.sizes.iter().max().unwrap()], pend: ch.pend.clone() }], ..case.clone() }));
        } else if let Some(&s) = ch.sizes.first() {
            // Larger chunks are simpler (fewer cuts).
            for bigger in [1usize << 16, s.saturating_mul(4), s.saturating_mul(2), s.saturating_add(1)] {
                if bigger > s {
                    out.push(with(Case { multi: vec![Chunking { sizes: vec![bigger], pend: ch.pend.clone() }], ..case.clone() }));
                }
            }
        }
    }
    out.retain(|c| c != sc);
    out
}


/// Classifier for a recorded finding: the value contains a record that has attributes and whose
/// only item is a record or a slot (the printers omit the braces around a single item, so the item
/// is read back as the body of the outer record / the attributes become part of the slot key).
fn has_single_record_item(v: &Value) -> bool {
    use swimos_model::Item;
    match v {
        Value::Record(attrs, items) => {
            let here = !attrs.is_empty() && items.len() == 1 && matches!(&items[0], Item::ValueItem(Value::Record(..)) | Item::Slot(..));
            here
                || attrs.iter().any(|a| has_single_record_item(&a.value))
                || items.iter().any(|i| match i {
                    Item::ValueItem(x) => has_single_record_item(x),
                    Item::Slot(k, x) => has_single_record_item(k) || has_single_record_item(x),
                })
        }
        _ => false,
    }
}

fn d4_tag(v: &Value) -> &'static str {
    if has_single_record_item(v) {
        ":single_record_item"
    } else {
        ""
    }
}
