#!/bin/bash
# Independent confirmation of a seeded defect in the scratch worktree /tmp/seedrepo:
#   ./verify_seeded.sh <name> <dir with patch.diff demo.diff meta.json> <crate> <test filter of the demo>
# 1. demo alone (no patch): must pass   2. patch + demo: demo must fail   3. patch: crate's own tests (demo skipped) must pass
set -u
NAME="$1"; DIR="$2"; CRATE="$3"; FILTER="$4"
# FILTER is either a test-name filter (demo inside the crate's unit tests) or "--test <file>" (integration test file).
case "$FILTER" in
  --test*) DEMO_ARGS="$FILTER"; REST_ARGS="--lib" ;;
  *) DEMO_ARGS="--lib $FILTER"; REST_ARGS="--lib -- --skip $FILTER" ;;
esac
W=/tmp/seedrepo
[ -d $W ] || git -C /repo worktree add -q $W HEAD
cd $W && git checkout -q -- . && git clean -fdq -e target && git checkout -q --detach $(git -C /repo rev-parse HEAD)
export CARGO_NET_OFFLINE=true
res() { echo "[$NAME] $1"; }
git apply "$DIR/demo.diff" || { res "demo.diff does not apply"; exit 1; }
if cargo test --offline -p $CRATE $DEMO_ARGS 2>&1 | grep -E "^test result" | grep -vq " 0 failed"; [ $? -ne 0 ]; then res "demo without patch: PASS (expected)"; else res "demo without patch: FAIL (unexpected)"; fi
git apply "$DIR/patch.diff" || { res "patch.diff does not apply"; exit 1; }
if cargo test --offline -p $CRATE $DEMO_ARGS 2>&1 | grep -E "^test result" | grep -vq " 0 failed"; then res "demo with patch: FAIL (expected)"; else res "demo with patch: PASS (unexpected)"; fi
OUT=$(cargo test --offline -p $CRATE $REST_ARGS 2>&1 | grep -E "^test result")
if echo "$OUT" | grep -vq " 0 failed"; then res "existing tests with patch: FAIL (unexpected) $OUT"; else res "existing tests with patch: PASS (expected) $(echo "$OUT" | head -1)"; fi
git checkout -q -- . && git clean -fdq -e target
